package peers

import (
	"errors"
	"io"
	"strconv"

	json "github.com/go-json-experiment/json"
	"github.com/go-json-experiment/json/jsontext"
)

// Matrix is implemented by every generated method-set type (and by pointers
// to them), so that option-supplied functions of this interface type apply
// to exactly those values.
type Matrix interface{ MatrixCode() string }

// Names maps candidate names ("To", "JSON", "Append", "Text", "Func0", ...)
// to behaviour IDs for the matrix types.
func (e *Env) nameID(name string) int {
	if e.Names == nil {
		return 0
	}
	return e.Names[name]
}

func (e *Env) MatrixTo(name string, enc *jsontext.Encoder) error {
	return e.MarshalTo(name, e.nameID(name), enc)
}
func (e *Env) MatrixBytes(name string) ([]byte, error) { return e.MarshalBytes(name, e.nameID(name)) }
func (e *Env) MatrixText(name string) ([]byte, error)  { return e.MarshalText(name, e.nameID(name)) }

// MatrixFrom interprets a behaviour against a Decoder. It returns the text the
// receiver should store.
func (e *Env) MatrixFrom(name string, dec *jsontext.Decoder) (string, error) {
	b := e.beh(e.nameID(name))
	e.log(name, e.nameID(name), KindNames[b.Kind])
	if !e.Quiet {
		if e.InUse == nil {
			e.InUse = map[any]int{}
		}
		e.InUse[dec]++
		defer func() { e.InUse[dec]-- }()
	}
	e.yield("peer/" + name)
	if e.CheckOpts != nil {
		if msg := e.CheckOpts(dec.Options()); msg != "" {
			e.finding(name + ": " + msg)
		}
	}
	switch b.Kind {
	case BErr:
		return "", ErrPeer
	case BUnsupported:
		return "", errors.ErrUnsupported
	case BUnsupportedAfter, BUnsupportedOpen:
		dec.ReadToken()
		return "", errors.ErrUnsupported
	case BZero:
		return name + ":nothing-read", nil
	case BTwo:
		dec.ReadValue()
		dec.ReadValue()
		return name + ":two", nil
	case BOpen:
		dec.ReadToken() // if the value is a container this leaves it open
		return name + ":open", nil
	case BReset:
		e.FreshDecoderProbe(name, dec)
		func() {
			defer func() {
				if r := recover(); r == nil {
					e.finding(name + ": Decoder.Reset inside an unmarshal call did not panic")
				}
			}()
			dec.Reset(io.LimitReader(nil, 0))
		}()
	case BPanic:
		panic(PeerPanic{e.nameID(name)})
	case BNestedThenReset:
		// hand the value to a nested UnmarshalDecode (the caller's options, and so
		// its functions, apply), then try to Reset: this call is still in progress
		var s NestedStr
		err := json.UnmarshalDecode(dec, &s)
		func() {
			defer func() {
				if r := recover(); r == nil {
					e.finding(name + ": Decoder.Reset inside an unmarshal call did not panic after a nested UnmarshalDecode")
				}
			}()
			dec.Reset(io.LimitReader(nil, 0))
		}()
		if err != nil {
			return "", err
		}
		return name + ":" + strconv.Quote(string(s)), nil
	}
	v, err := dec.ReadValue()
	if err != nil {
		return "", err
	}
	return name + ":" + string(v), nil
}

// NestedStr is what a BNestedThenReset peer unmarshals its value into.
type NestedStr string

func (e *Env) MatrixUnBytes(name string, in []byte) (string, error) {
	b := e.beh(e.nameID(name))
	e.log(name, e.nameID(name), KindNames[b.Kind])
	e.yield("peer/" + name)
	switch b.Kind {
	case BErr:
		return "", ErrPeer
	case BUnsupported, BUnsupportedAfter, BUnsupportedOpen:
		return "", errors.ErrUnsupported
	case BPanic:
		panic(PeerPanic{e.nameID(name)})
	}
	return name + ":" + string(in), nil
}

func (e *Env) MatrixUnText(name string, in []byte) (string, error) {
	return e.MatrixUnBytes(name, in)
}
