// Package peers holds the scripted user code the library calls back:
// MarshalJSON/MarshalJSONTo/MarshalText/AppendText/UnmarshalJSON/
// UnmarshalJSONFrom/UnmarshalText methods and option-supplied functions whose
// behaviour is looked up in the current run's plan.
package peers

import (
	"bytes"
	"errors"
	"fmt"
	"io"
	"strings"
	"sync"

	json "github.com/go-json-experiment/json"
	"github.com/go-json-experiment/json/jsontext"
)

// Behaviour kinds. 0 is the well-behaved one.
const (
	BOK               = iota // exactly one valid value
	BErr                     // return an error
	BUnsupported             // return ErrUnsupported without touching the coder
	BUnsupportedAfter        // use the coder, then return ErrUnsupported
	BUnsupportedOpen         // open a container, then return ErrUnsupported
	BZero                    // touch nothing, return nil
	BTwo                     // two values
	BOpen                    // leave a container open
	BCloseParent             // value, close the parent's container, reopen a sibling (DESIGN 7.5)
	BBadBytes                // (byte-returning methods) return Payload verbatim, may be malformed
	BReenter                 // call json.Marshal/Unmarshal from inside, then behave
	BReset                   // call Reset on the coder (documented panic), then behave
	BPanic                   // panic with a tagged value
	BIgnoredErrors           // make rejected calls (errors ignored), then behave
	BNestedFail              // a nested MarshalEncode fails inside a struct; ignore it, close by hand, repeat a name
	BNestedThenReset         // marshal a nested value whose type has its own MarshalJSONTo via MarshalEncode, then call Reset
	BNonStringNames          // open an object and try to marshal empty containers where a member name is required
	BNumKinds
)

var KindNames = []string{"ok", "error", "unsupported", "unsupported-after-use", "unsupported-after-open", "zero-values", "two-values", "open-container", "close-parent", "bad-bytes", "reenter", "reset", "panic", "ignored-errors", "nested-fail", "nested-then-reset", "non-string-names"}

// Behaviour of one peer (by ID).
type Behaviour struct {
	Kind    int    `json:"kind"`
	Payload string `json:"payload,omitempty"` // JSON text for OK; raw bytes for byte-returning methods
	Text    string `json:"text,omitempty"`    // for MarshalText/AppendText
}

// PeerPanic is the tagged panic value of BPanic.
type PeerPanic struct{ ID int }

var ErrPeer = errors.New("peer: scripted error")

// Event records which user code ran.
type Event struct {
	Method string `json:"method"`
	ID     int    `json:"id"`
	Ptr    bool   `json:"ptr_receiver_nil,omitempty"`
	Result string `json:"result,omitempty"`
}

// Env is the plan the peers interpret during one run.
type Env struct {
	Beh   map[int]Behaviour
	Log   []Event
	Yield func(site string)
	// Peer-side findings (e.g. Reset did not panic, options not the caller's).
	Findings []string
	// CheckOpts, if set, is called with the coder's Options inside every call.
	CheckOpts func(opts jsontext.Options) string
	Depth     int // re-entrancy guard
	// InUse counts, per coder, how many user callbacks currently hold it.
	InUse map[any]int
	// Names maps matrix candidate names to behaviour IDs.
	Names map[string]int
	// Quiet: no logging or bookkeeping at all (the Env is shared by really
	// concurrent goroutines in the auxiliary race-detector run).
	Quiet bool
}

var Cur = &Env{}

func (e *Env) beh(id int) Behaviour {
	if e == nil || e.Beh == nil {
		return Behaviour{}
	}
	return e.Beh[id]
}

func (e *Env) log(method string, id int, res string) {
	if e.Quiet {
		return
	}
	if len(e.Log) < 4096 {
		e.Log = append(e.Log, Event{Method: method, ID: id, Result: res})
	}
}

var findingMu sync.Mutex

func (e *Env) finding(msg string) {
	findingMu.Lock()
	e.Findings = append(e.Findings, msg)
	findingMu.Unlock()
}

func (e *Env) yield(site string) {
	if e.Yield != nil {
		e.Yield(site)
	}
}

func okPayload(b Behaviour, id int) string {
	if b.Payload != "" {
		return b.Payload
	}
	return fmt.Sprintf(`{"peer":%d}`, id)
}

// MarshalTo interprets a behaviour against an Encoder.
func (e *Env) MarshalTo(method string, id int, enc *jsontext.Encoder) error {
	b := e.beh(id)
	e.log(method, id, KindNames[b.Kind])
	if !e.Quiet {
		if e.InUse == nil {
			e.InUse = map[any]int{}
		}
		e.InUse[enc]++
		defer func() { e.InUse[enc]-- }()
	}
	e.yield("peer/" + method)
	if e.CheckOpts != nil {
		if msg := e.CheckOpts(enc.Options()); msg != "" {
			e.finding(method + ": " + msg)
		}
	}
	switch b.Kind {
	case BErr:
		return ErrPeer
	case BUnsupported:
		return errors.ErrUnsupported
	case BUnsupportedAfter:
		enc.WriteToken(jsontext.String("used"))
		return errors.ErrUnsupported
	case BUnsupportedOpen:
		enc.WriteToken(jsontext.BeginArray)
		return errors.ErrUnsupported
	case BZero:
		return nil
	case BTwo:
		enc.WriteValue(jsontext.Value(okPayload(b, id)))
		enc.WriteToken(jsontext.Int(2))
		return nil
	case BOpen:
		if id%2 == 0 {
			enc.WriteToken(jsontext.BeginArray)
			enc.WriteToken(jsontext.Int(1))
		} else {
			enc.WriteToken(jsontext.BeginObject)
			enc.WriteToken(jsontext.String("open"))
		}
		return nil
	case BCloseParent:
		enc.WriteValue(jsontext.Value(okPayload(b, id)))
		// close whatever the parent is and open a sibling of the same kind
		if err := enc.WriteToken(jsontext.EndObject); err == nil {
			enc.WriteToken(jsontext.BeginObject)
			enc.WriteToken(jsontext.String("g"))
			enc.WriteToken(jsontext.Int(2))
		} else if err := enc.WriteToken(jsontext.EndArray); err == nil {
			enc.WriteToken(jsontext.BeginArray)
			enc.WriteToken(jsontext.Int(7))
		}
		return nil
	case BReenter:
		if e.Quiet {
			json.Marshal(map[string]any{"reenter": []any{1, "x", nil}})
		} else if e.Depth < 2 {
			e.Depth++
			json.Marshal(map[string]any{"reenter": []any{1, "x", nil}})
			var x any
			json.Unmarshal([]byte(`{"a":[1,2,{"b":null}]}`), &x)
			e.Depth--
		}
	case BReset:
		e.FreshEncoderProbe(method, enc)
		func() {
			defer func() {
				if r := recover(); r == nil {
					e.finding(method + ": Encoder.Reset inside a marshal call did not panic")
				}
			}()
			enc.Reset(io.Discard)
		}()
	case BPanic:
		panic(PeerPanic{id})
	case BNestedThenReset:
		var err error
		switch id & 3 {
		case 0:
			err = json.MarshalEncode(enc, []PTo{{ID: 0}})
		case 1:
			err = json.MarshalEncode(enc, map[string]PTo{"k": {ID: 0}})
		case 2:
			err = json.MarshalEncode(enc, PTo{ID: 0})
		default:
			err = json.MarshalEncode(enc, struct{ F PTo }{PTo{ID: 0}})
		}
		func() {
			defer func() {
				if r := recover(); r == nil {
					e.finding(method + ": Encoder.Reset inside a marshal call did not panic after a nested MarshalEncode")
				}
			}()
			enc.Reset(io.Discard)
		}()
		return err
	case BNonStringNames:
		if err := enc.WriteToken(jsontext.BeginObject); err != nil {
			return err
		}
		// none of these may be accepted where a member name is expected
		var emptyAny any = []any{}
		json.MarshalEncode(enc, &emptyAny)
		json.MarshalEncode(enc, []any{})
		json.MarshalEncode(enc, map[string]int{})
		json.MarshalEncode(enc, map[string]any(nil))
		json.MarshalEncode(enc, []int{})
		json.MarshalEncode(enc, struct{}{})
		json.MarshalEncode(enc, 5)
		json.MarshalEncode(enc, nil)
		if err := enc.WriteToken(jsontext.String("k")); err != nil {
			return err
		}
		if err := enc.WriteToken(jsontext.Int(1)); err != nil {
			return err
		}
		return enc.WriteToken(jsontext.EndObject)
	case BNestedFail:
		entry := enc.StackDepth()
		type inner struct {
			A int
			B []any
			C map[string]any
		}
		json.MarshalEncode(enc, inner{A: 0, B: []any{1, []any{make(chan int)}}}) // fails two levels below the struct's object
		for enc.StackDepth() > entry+1 {
			if k, _ := enc.StackIndex(enc.StackDepth()); k == '{' {
				if enc.WriteToken(jsontext.EndObject) != nil {
					break
				}
			} else if enc.WriteToken(jsontext.EndArray) != nil {
				break
			}
		}
		enc.WriteToken(jsontext.String("A")) // a name the struct already emitted
		enc.WriteToken(jsontext.Int(1))
		enc.WriteToken(jsontext.EndObject)
		return nil
	case BIgnoredErrors:
		enc.WriteValue(jsontext.Value(`{"a":1,"a":2`))
		enc.WriteToken(jsontext.EndArray)
		enc.WriteToken(jsontext.Token{})
		enc.WriteValue(jsontext.Value("\"\xff\""))
	}
	switch pl := okPayload(b, id); {
	case pl == "[]" && id%2 == 0:
		// the same value as two tokens (an empty value the encoder sees in pieces)
		if err := enc.WriteToken(jsontext.BeginArray); err != nil {
			return err
		}
		return enc.WriteToken(jsontext.EndArray)
	case pl == "{}" && id%2 == 0:
		if err := enc.WriteToken(jsontext.BeginObject); err != nil {
			return err
		}
		return enc.WriteToken(jsontext.EndObject)
	default:
		return enc.WriteValue(jsontext.Value(pl))
	}
}

// MarshalBytes interprets a behaviour for MarshalJSON-style methods.
func (e *Env) MarshalBytes(method string, id int) ([]byte, error) {
	b := e.beh(id)
	e.log(method, id, KindNames[b.Kind])
	e.yield("peer/" + method)
	switch b.Kind {
	case BErr:
		return nil, ErrPeer
	case BUnsupported, BUnsupportedAfter, BUnsupportedOpen:
		return nil, errors.ErrUnsupported
	case BZero:
		return nil, nil
	case BTwo:
		return []byte(okPayload(b, id) + " 2"), nil
	case BOpen:
		return []byte(`{"open":[1,`), nil
	case BBadBytes:
		return []byte(b.Payload), nil
	case BCloseParent:
		return []byte(okPayload(b, id) + `}{"g":2`), nil
	case BReenter:
		if e.Quiet {
			json.Marshal([]any{"reenter"})
		} else if e.Depth < 2 {
			e.Depth++
			json.Marshal([]any{"reenter"})
			e.Depth--
		}
	case BPanic:
		panic(PeerPanic{id})
	}
	return []byte(okPayload(b, id)), nil
}

// MarshalText interprets a behaviour for MarshalText/AppendText.
func (e *Env) MarshalText(method string, id int) ([]byte, error) {
	b := e.beh(id)
	e.log(method, id, KindNames[b.Kind])
	e.yield("peer/" + method)
	switch b.Kind {
	case BErr:
		return nil, ErrPeer
	case BUnsupported, BUnsupportedAfter, BUnsupportedOpen:
		return nil, errors.ErrUnsupported
	case BBadBytes:
		return []byte(b.Payload), nil
	case BPanic:
		panic(PeerPanic{id})
	}
	if b.Text != "" {
		return []byte(b.Text), nil
	}
	return []byte(fmt.Sprintf("text-%d", id)), nil
}

// ---------------------------------------------------------------------------
// marshal-side peer types (exported ID so that the default representation is
// {"ID":n} when a method declines)

type PTo struct{ ID int }

func (p PTo) MarshalJSONTo(e *jsontext.Encoder) error {
	return Cur.MarshalTo("PTo.MarshalJSONTo", p.ID, e)
}

type PToPtr struct{ ID int }

func (p *PToPtr) MarshalJSONTo(e *jsontext.Encoder) error {
	if p == nil {
		Cur.finding("PToPtr.MarshalJSONTo called on a nil pointer")
		return e.WriteToken(jsontext.Null)
	}
	return Cur.MarshalTo("PToPtr.MarshalJSONTo", p.ID, e)
}

type PJSON struct{ ID int }

func (p PJSON) MarshalJSON() ([]byte, error) { return Cur.MarshalBytes("PJSON.MarshalJSON", p.ID) }

type PJSONPtr struct{ ID int }

func (p *PJSONPtr) MarshalJSON() ([]byte, error) {
	if p == nil {
		Cur.finding("PJSONPtr.MarshalJSON called on a nil pointer")
		return []byte("null"), nil
	}
	return Cur.MarshalBytes("PJSONPtr.MarshalJSON", p.ID)
}

type PText struct{ ID int }

func (p PText) MarshalText() ([]byte, error) { return Cur.MarshalText("PText.MarshalText", p.ID) }

type PAppend struct{ ID int }

func (p PAppend) AppendText(b []byte) ([]byte, error) {
	t, err := Cur.MarshalText("PAppend.AppendText", p.ID)
	switch Cur.beh(p.ID).Kind {
	case BZero:
		return nil, nil // breaks the append contract: returns less than it was given
	case BTwo:
		return b[:len(b)/2], nil
	case BOpen:
		return []byte("fresh slice, not an extension of b"), nil
	}
	return append(b, t...), err
}

// PFunc has no methods; option-supplied functions handle it.
type PFunc struct{ ID int }

// PToFn / PBytesFn are the function bodies for MarshalToFunc / MarshalFunc.
func PToFn(enc *jsontext.Encoder, p PFunc) error {
	return Cur.MarshalTo("MarshalToFunc[PFunc]", p.ID, enc)
}
func PBytesFn(p PFunc) ([]byte, error) { return Cur.MarshalBytes("MarshalFunc[PFunc]", p.ID) }

// OnceBox makes POnce panic exactly once.
type OnceBox struct{ Fired bool }

// POnce panics (tagged) the first time it is marshalled and behaves afterwards:
// user code that failed once and is then retried by its caller.
type POnce struct{ box *OnceBox }

func NewPOnce() POnce { return POnce{&OnceBox{}} }

func (p POnce) MarshalJSONTo(e *jsontext.Encoder) error {
	if !p.box.Fired {
		p.box.Fired = true
		panic(PeerPanic{-1})
	}
	return e.WriteToken(jsontext.String("ok"))
}

// FreshEncoderProbe: inside a user-defined marshal call, an unrelated Encoder
// built with the options of the Encoder in hand is an ordinary Encoder: it
// separates top-level values with newlines and can be Reset.
func (e *Env) FreshEncoderProbe(method string, enc *jsontext.Encoder) {
	var bb bytes.Buffer
	func() {
		defer func() {
			if r := recover(); r != nil {
				e.finding(fmt.Sprintf("%s: an Encoder built with NewEncoder(w, enc.Options()) inside the call panicked: %v", method, r))
			}
		}()
		e2 := jsontext.NewEncoder(&bb, enc.Options())
		e2.WriteToken(jsontext.Int(1))
		e2.WriteToken(jsontext.Int(2))
		if got := bb.String(); got != "1\n2\n" {
			e.finding(fmt.Sprintf("%s: an Encoder built with NewEncoder(w, enc.Options()) inside the call wrote %q for the values 1 and 2", method, got))
		}
		e2.Reset(&bb)
	}()
}

// FreshDecoderProbe is the same for a Decoder.
func (e *Env) FreshDecoderProbe(method string, dec *jsontext.Decoder) {
	func() {
		defer func() {
			if r := recover(); r != nil {
				e.finding(fmt.Sprintf("%s: a Decoder built with NewDecoder(r, dec.Options()) inside the call panicked: %v", method, r))
			}
		}()
		d2 := jsontext.NewDecoder(strings.NewReader("1 2"), dec.Options())
		v1, err1 := d2.ReadValue()
		v1 = v1.Clone()
		v2, err2 := d2.ReadValue()
		if err1 != nil || err2 != nil || string(v1) != "1" || string(v2) != "2" {
			e.finding(fmt.Sprintf("%s: a Decoder built with NewDecoder(r, dec.Options()) inside the call read %q,%q (%v,%v) from \"1 2\"", method, v1, v2, err1, err2))
		}
		d2.Reset(strings.NewReader("3"))
	}()
}
