// verifsim: deterministic simulation with fault injection for
// go-json-experiment/json. Subcommands: check, worker, replay, selftest.
package main

import (
	"bufio"
	"crypto/sha256"
	"encoding/hex"
	"encoding/json"
	"flag"
	"fmt"
	"os"
	"os/exec"
	"path/filepath"
	"runtime"
	"runtime/debug"
	"runtime/pprof"
	"sort"
	"strconv"
	"strings"
	"sync"
	"syscall"
	"time"

	jsonv2 "github.com/go-json-experiment/json"

	"verifsim/core"
	"verifsim/gen"
	"verifsim/scen"
)

var verifDir = "/verif"
var noEvidence bool
var auxRaceEvidence map[string]any

type propSpec struct {
	Scenario   string
	Make       func() scen.Scenario
	QuickRuns  int
	ThorRuns   int
	ResetCache bool
	Chunk      int // runs per worker process (0: all); bounds growth of interned reflect types
	Rule       string
	Real       []string
	Stub       []string
}

var realAll = []string{"github.com/go-json-experiment/json (all of it, incl. jsontext, v1, internal/*)", "sync.Pool / sync.Map / sync.Once as used by the library"}
var stubIO = []string{"io.Reader / io.Writer arguments (SimReader, SimWriter)", "GC timing (explicit, injected)", "goroutine scheduling (one P, cooperative tasks)"}

func registry() map[string]*propSpec {
	return map[string]*propSpec{
		"C03": {Scenario: "dec-arshal", Make: func() scen.Scenario { return &scen.DecArshal{Mode: "c03"} }, QuickRuns: 200000, ThorRuns: 16000000,
			Rule: "each run = a stream of 1-6 valid duplicate-free texts whose strings come from small families colliding in the decoder's string-interning cache, decoded into any / map[string]any / []any / a named empty interface through UnmarshalRead (chunked reader) or successive UnmarshalDecode calls on one Decoder (cache history across values), after 0-2 earlier pooled calls (cache history across calls), with semantics-preserving options that switch the internal route (AllowDuplicateNames on duplicate-free input; an Unmarshalers function for *any that declines); all routes must agree with each other, with Unmarshal of each value span, and with the reference decoder (RFC 8259 unescaping, strconv-rounded float64, overflow is an error). distinct = hash of (target, route, buffer class, cuts by lexeme class, input size class); non-trivial = a chunked/short read landed in the run.",
			Real: realAll, Stub: stubIO},
		"C20": {Scenario: "all", Make: func() scen.Scenario {
			return &scen.Multi{Parts: []scen.Part{
				{W: 6, S: &scen.Depth{}},
				{W: 4, S: &scen.Dec{Mode: "c20"}}, {W: 2, S: &scen.DecArshal{Mode: "c05"}},
				{W: 2, S: &scen.Enc{Mode: "c06"}}, {W: 2, S: &scen.Enc{Mode: "c07"}},
				{W: 4, S: &scen.ArshalMarshal{Mode: "c02"}}, {W: 2, S: &scen.Dispatch{}}, {W: 1, S: &scen.MergeChain{}}, {W: 2, S: &scen.Scope{}},
				{W: 1, S: &scen.Hist{}}, {W: 3, S: &scen.V1Misc{}},
			}}
		}, QuickRuns: 60000, ThorRuns: 1500000, Chunk: 1500, ResetCache: true,
			Rule: "each run = either a depth-boundary run (a tower nested 9998..10002 deep in a drawn array/object mix with a drawn leaf incl. empty containers, pushed through one of 25 paths: ReadToken/ReadValue/SkipValue loops and token/value splits over a chunked reader, IsValid, Format, Compact, Indent, Canonicalize, WriteToken, WriteValue and token/value splits, Marshal/MarshalWrite/MarshalEncode of deep Go values through []any, map[string]any, pointer chains and recursive slice/map types incl. a peer that re-enters Marshal half-way down, Unmarshal/UnmarshalRead into any and into a linked struct; or a cyclic Go value through pointer, map, slice, interface, pointer-to-pointer (child process), struct ring, deep-then-cycle) with the oracle '10000 accepted, 10001 refused with an error, cycles yield an error'; or one run of any other scenario of this framework (dec, enc, arshal, dispatch, merge, scope, hist) with only the panic/livelock monitor armed. distinct = hash of the run's plan signature; all depth runs count as non-trivial.",
			Real: realAll, Stub: append([]string{"user marshal methods (scripted peers)"}, stubIO...)},
		"C05": {Scenario: "dec", Make: func() scen.Scenario {
			return &scen.Multi{Parts: []scen.Part{{W: 3, S: &scen.Dec{Mode: "c05"}}, {W: 1, S: &scen.DecArshal{Mode: "c05"}}}}
		}, Chunk: 100000, QuickRuns: 240000, ThorRuns: 16000000,
			Rule: "each run = 1-3 episodes on one Decoder (Reset between): generated/mutated JSON stream x option set x program over ReadToken/ReadValue/SkipValue/PeekKind x read schedule (1-byte, cuts, random sizes, empty reads, data+EOF, bufio, bytes.Buffer) x transient read faults x optional hand-off; compared call by call with the same program on the whole slice. distinct = distinct hash of (reader kind, buffer-capacity class, cut positions by lexeme class, fault counts, op 3-grams, outcome); non-trivial = a short/empty/faulty read, Reset or hand-off landed inside the run.",
			Real: realAll, Stub: stubIO},
		"C07": {Scenario: "enc+arshal", Make: func() scen.Scenario {
			return &scen.Multi{Parts: []scen.Part{{W: 3, S: &scen.Enc{Mode: "c07"}}, {W: 2, S: &scen.ArshalMarshal{Mode: "c07"}}}}
		}, QuickRuns: 200000, ThorRuns: 12000000, Chunk: 12500, ResetCache: true,
			Rule: "each run = a grammatical program of WriteToken/WriteValue calls derived from generated JSON texts (sizes straddling the 64..4096-byte buffer thresholds) x option set x writer kind x write-fault script (short writes, error after full write, zero-progress error, disk full at byte k; call-indexed and offset-keyed); compared call by call with the fault-free twin; at the end faults stop, containers are closed and a sentinel is written: the writer must hold exactly the fault-free bytes. distinct = hash of (fault counts by kind, largest write, output size class, number of calls, options); non-trivial = at least one write fault fired or the bytes.Buffer path was taken.",
			Real: realAll, Stub: stubIO},
		"C02": {Scenario: "arshal", Make: func() scen.Scenario { return &scen.ArshalMarshal{Mode: "c02"} }, QuickRuns: 160000, ThorRuns: 16000000, Chunk: 10000, ResetCache: true,
			Rule: "each run = one Go value of a reflect-built random type (scalars incl. NaN/Inf and ill-formed strings, bytes, raw values holding arbitrary bytes, pointers, slices, arrays, maps with string/int/float/bool/TextMarshaler keys, structs with random tags incl. omitempty/omitzero/string/embed and >64 fields) with scripted peers (MarshalJSONTo / MarshalJSON / MarshalText / AppendText methods on value and pointer receivers, MarshalToFunc / MarshalFunc) executing drawn behaviours (one value, error, ErrUnsupported before/after use, zero or two values, open container, close the parent container, malformed bytes, re-entry, Reset, panic, ignored rejected calls) x option set, marshalled through Marshal, MarshalWrite (faulty writer) and MarshalEncode (inside a token context); nil error => output is exactly one value valid under the effective options by the independent recognizer. distinct = hash of (type, behaviour kinds present, output size class, context, options); non-trivial = a misbehaving peer, a write fault or a panic landed in the run.",
			Real: realAll, Stub: append([]string{"user marshal methods and functions (scripted peers)"}, stubIO...)},
		"C06": {Scenario: "enc", Make: func() scen.Scenario { return &scen.Enc{Mode: "c06"} }, QuickRuns: 200000, ThorRuns: 6000000,
			Rule: "each run = a sequence of WriteToken/WriteValue calls drawn legal with p=0.7 given the reference push-down model (all token kinds, ill-formed strings, NaN/Inf, zero token, raw values valid/truncated/duplicate-bearing/garbage, deep mode 9998..10001) x option set; every call's verdict vs the documented grammar, observers after every call vs the model, rejected calls must not move observers, twin run with the rejected calls removed must match, delivered bytes at depth 0 vs the reference serializer. distinct = hash of (call 2-grams, number of rejected calls, final depth, options); non-trivial = at least one rejected call.",
			Real: realAll, Stub: stubIO},
		"C14": {Scenario: "arshal-merge", Make: func() scen.Scenario { return &scen.MergeChain{} }, QuickRuns: 300000, ThorRuns: 12000000, Chunk: 10000, ResetCache: true,
			Rule: "each run = a reflect-built merge-capable type (structs, maps with string/int keys, pointers, slices, arrays, interfaces, scalars, byte slices/arrays; depth <= 4) and a chain of 2-4 JSON texts fitted to it with nulls, missing and unknown members (optionally short arrays under UnmarshalArrayFromAnyLength), applied to one long-lived value by separate Unmarshal calls and by successive UnmarshalDecode calls over one chunked stream; whenever every step succeeds the result must deep-equal Unmarshal(merge(j1..jk)) into a zero value, merge being the recursive object union computed by the reference (knows nothing about Go kinds). distinct = hash of (type, chain length, merged text); non-trivial = chain of >= 3 texts or a chunked read landed.",
			Real: realAll, Stub: stubIO},
		"C19": {Scenario: "scope", Make: func() scen.Scenario { return &scen.Scope{} }, QuickRuns: 200000, ThorRuns: 24000000, ResetCache: false,
			Rule: "each run = a user-owned Encoder or Decoder with 0-2 coder-level options, inside an array or object, and 2-9 items: tokens and MarshalEncode/UnmarshalDecode calls with 0-3 per-call options (semantic, formatting, duplicate/UTF-8, marshaler/unmarshaler functions, v1 options) that are made to fail by a write/read fault, a peer error or panic, a conversion error, or a refused option change; a snapshot of GetOption over every public option on coder.Options() must be identical before and after each call and equal to the coder's own; successful calls must have used coder+call options (size of the value equals Marshal's); a JoinOptions snapshot taken inside a callback must not change afterwards. Only this call-scoping clause of C19 is decided by simulation; two pure clauses (a later false option wins; DefaultOptionsV2 cancels v1 options) are sampled as a by-product. distinct = hash of (side, coder options, items with their call options); non-trivial = a call failed.",
			Real: realAll, Stub: append([]string{"user marshal methods (scripted peers)"}, stubIO...)},
		"C17": {Scenario: "arshal-dispatch", Make: func() scen.Scenario { return &scen.Dispatch{} }, QuickRuns: 300000, ThorRuns: 40000000, ResetCache: true,
			Rule: "each run = one of 81 generated marshal method-set types ({absent,value,pointer receiver} x {MarshalJSONTo,MarshalJSON,AppendText,MarshalText}) or 27 unmarshal method-set types x position kind (top, pointer, field, non-addressable field, slice/array element, map value, map key, inside interface, pointer field, nil pointer) x 0-3 option-supplied functions of interface type (MarshalToFunc/MarshalFunc, UnmarshalFromFunc/UnmarshalFunc, flat or nested Join) x a behaviour per candidate (ok, ErrUnsupported before/after use, error, zero/two values, open container, Reset) x a cache history of 0-4 earlier calls; the peers log which user code ran; a rule model of the documented order predicts the log, success/failure and the representation; inside the call the caller's options must be visible and Reset must panic. distinct = hash of (side, method set, position, functions, warm-up, behaviours); non-trivial = a misbehaving candidate or a warm cache.",
			Real: realAll, Stub: []string{"user marshal/unmarshal methods and functions (generated peers interpreting a scripted behaviour)", "arshaler cache contents (reset per run, then warmed in a drawn order)"}},
		"C18": {Scenario: "hist", Make: func() scen.Scenario { return &scen.Hist{} }, QuickRuns: 12000, ThorRuns: 300000, Chunk: 400, ResetCache: true,
			Rule: "each run = a pool of 6-18 (thorough: up to 43) heterogeneous calls (Marshal with adversarial values and panicking/erroring/re-entering peers, MarshalWrite with offset-keyed write faults, Unmarshal/UnmarshalRead of valid and invalid texts into 15 target types with offset-keyed read cuts and faults, Format/Compact/Indent/Canonicalize/IsValid/AppendFormat, v1 calls, user-owned Encoder programs incl. reuse after Reset, 1 MiB documents, >1000-deep values that switch cycle tracking on), executed in a drawn order as 1-16 cooperative tasks that switch at reader/writer/callback seams, with pool faults (explicit double GC, drain+permute, drop, arshaler-cache reset) at drawn steps; every outcome compared with the same call alone from pristine pools and caches; returned byte slices re-checked at the end; inputs overwritten after Unmarshal; pooled objects checked for duplicates and for being in use. distinct = hash of (context-switch sequence, task count, call kinds, pool faults); non-trivial = tasks really interleaved or a pool fault fired.",
			Real: realAll, Stub: append([]string{"user marshal methods and functions (scripted peers)", "task scheduling (cooperative, one task at a time, switch points at seams)"}, stubIO...)},
		"C16": {Scenario: "dec+enc", Make: func() scen.Scenario {
			return &scen.Multi{Parts: []scen.Part{{W: 6, S: &scen.Dec{Mode: "c16"}}, {W: 2, S: &scen.Enc{Mode: "c16"}}, {W: 1, S: &scen.Enc{Mode: "c07"}}, {W: 2, S: &scen.SemErr{}}, {W: 1, S: &scen.PointerAlgebra{}}}}
		}, QuickRuns: 200000, ThorRuns: 3000000,
			Rule: "dec scenario with the independent reference recognizer armed: observers after every call vs reference push-down model; rejected inputs vs the offset/pointer relation. distinct as for C05; non-trivial = chunked read schedule landed inside the run.",
			Real: realAll, Stub: stubIO},
		"C01": {Scenario: "dec", Make: func() scen.Scenario { return &scen.Dec{Mode: "c01"} }, QuickRuns: 200000, ThorRuns: 2000000,
			Rule: "dec scenario, mutation-heavy inputs, verdict of token/value/mixed loops over chunked streams vs the independent recognizer. distinct as for C05.",
			Real: realAll, Stub: stubIO},
	}
}

func main() {
	if len(os.Args) < 2 {
		fmt.Fprintln(os.Stderr, "usage: verifsim check|worker|replay|selftest ...")
		os.Exit(2)
	}
	if d := os.Getenv("VERIF_DIR"); d != "" {
		verifDir = d
	}
	// `format` tag options are behind a process-wide experimental switch; turn
	// it on for every process of the simulator so that the time/duration/bytes
	// formats are part of the explored library code (uniformly: replay is
	// unaffected)
	jsonv2.ExperimentalGlobalSupportFormatTag(true)
	switch os.Args[1] {
	case "check":
		os.Exit(cmdCheck(os.Args[2:]))
	case "worker":
		os.Exit(cmdWorker(os.Args[2:]))
	case "replay":
		os.Exit(cmdReplay(os.Args[2:]))
	case "selftest":
		os.Exit(cmdSelftest(os.Args[2:]))
	case "probe":
		scen.ProbeCyclic(os.Args[2])
		os.Exit(0)
	case "race":
		os.Exit(cmdRace(os.Args[2:]))
	default:
		fmt.Fprintln(os.Stderr, "unknown subcommand", os.Args[1])
		os.Exit(2)
	}
}

// ---------------------------------------------------------------------------
// one run

type runOutcome struct {
	Viols    []core.Violation
	Plan     any
	Tape     map[string][]uint32
	Draws    int
	Panicked bool
	LogHash  uint64
}

func runOne(spec *propSpec, prop, tier string, tape *core.Tape, stats *core.Stats, wantPlan bool) (out runOutcome) {
	core.ResetWorld(spec.ResetCache)
	stats.Sig = 0
	stats.Nontrivial = false
	env := &scen.Env{Prop: prop, Tier: tier, Stats: stats, WantPlan: wantPlan, Thorough: tier == "thorough", Known: knownSet}
	sc := spec.Make()
	// World parameter: the process-wide format-tag switch. With it on the
	// library appends an option to EVERY call, so the "no per-call options"
	// paths of MarshalEncode/UnmarshalDecode (which then work on the coder's
	// own option struct, also when user methods re-enter the library) would
	// never run; with it off, generated types carry no `format:` tags.
	ftOn := tape.S("world/format-tag-switch").Chance(2, 3)
	jsonv2.ExperimentalGlobalSupportFormatTag(ftOn)
	gen.FormatTags = ftOn
	defer func() {
		jsonv2.ExperimentalGlobalSupportFormatTag(true)
		gen.FormatTags = true
	}()
	func() {
		defer func() {
			if r := recover(); r != nil {
				out.Panicked = true
				st := string(debug.Stack())
				site := panicSite(st)
				out.Viols = append(out.Viols, core.Violationf("C20", "C20/panic", site, "panic: %v\n%s", r, trimStack(st)))
			}
		}()
		out.Plan, out.Viols = sc.Run(tape, env)
	}()
	out.Tape = tape.Dump()
	out.Draws = tape.Draws()
	h := core.Mix(stats.Sig, uint64(out.Draws), uint64(len(out.Viols)))
	for _, v := range out.Viols {
		h = core.Mix(h, hashStr(v.Key()))
	}
	out.LogHash = h
	return
}

func hashStr(s string) uint64 {
	h := uint64(14695981039346656037)
	for i := 0; i < len(s); i++ {
		h ^= uint64(s[i])
		h *= 1099511628211
	}
	return h
}

func panicSite(stack string) string {
	// first frame inside the library
	for _, l := range strings.Split(stack, "\n") {
		if strings.HasPrefix(l, "github.com/go-json-experiment/json") {
			if i := strings.LastIndex(l, "("); i > 0 {
				l = l[:i]
			}
			return strings.TrimPrefix(l, "github.com/go-json-experiment/json")
		}
	}
	return "unknown"
}

func trimStack(s string) string {
	ls := strings.Split(s, "\n")
	if len(ls) > 30 {
		ls = ls[:30]
	}
	return strings.Join(ls, "\n")
}

// ---------------------------------------------------------------------------
// known findings

type knownFinding struct {
	Property, Class, Site, Text string
}

var knownList []knownFinding
var knownSet = map[string]bool{}

func loadKnown() {
	f, err := os.Open(filepath.Join(verifDir, "known_findings.txt"))
	if err != nil {
		return
	}
	defer f.Close()
	sc := bufio.NewScanner(f)
	for sc.Scan() {
		l := strings.TrimSpace(sc.Text())
		if !strings.HasPrefix(l, "known:") {
			continue
		}
		k := knownFinding{}
		rest := strings.TrimSpace(strings.TrimPrefix(l, "known:"))
		fields := strings.Fields(rest)
		n := 0
		for _, f := range fields {
			switch {
			case strings.HasPrefix(f, "property="):
				k.Property = strings.TrimPrefix(f, "property=")
				n++
			case strings.HasPrefix(f, "class="):
				k.Class = strings.TrimPrefix(f, "class=")
				n++
			case strings.HasPrefix(f, "site="):
				k.Site = strings.TrimPrefix(f, "site=")
				n++
			default:
				goto done
			}
		}
	done:
		k.Text = strings.Join(fields[n:], " ")
		knownList = append(knownList, k)
		knownSet[k.Property+"|"+k.Class+"|"+k.Site] = true
	}
}

// ---------------------------------------------------------------------------
// worker

type violationReport struct {
	Violation   core.Violation      `json:"violation"`
	RunSeed     uint64              `json:"run_seed"`
	ReplayFile  string              `json:"replay_file"`
	ShrunkFrom  int                 `json:"shrunk_from_draws"`
	ShrunkTo    int                 `json:"shrunk_to_draws"`
	ShrinkRuns  int                 `json:"shrink_runs"`
	Tape        map[string][]uint32 `json:"-"`
	Known       bool                `json:"known"`
	OtherProp   bool                `json:"other_property"`
	WorkerIndex int                 `json:"worker"`
}

type workerResult struct {
	Prop        string            `json:"prop"`
	Runs        int64             `json:"runs"`
	Steps       int64             `json:"steps"`
	Faults      map[string]int64  `json:"faults"`
	Probes      map[string]int64  `json:"probes"`
	Sigs        []uint64          `json:"sigs"`
	NontrivSigs []uint64          `json:"nontriv_sigs"`
	SigsSat     bool              `json:"sigs_saturated"`
	Nontrivial  int64             `json:"nontrivial_runs"`
	Samples     []json.RawMessage `json:"samples"`
	Violations  []violationReport `json:"violations"`
	KnownHits   map[string]int64  `json:"known_hits"`
	Aborted     int64             `json:"aborted_other_property"`
	AbortedKeys map[string]int64  `json:"aborted_keys"`
	WallS       float64           `json:"wall_s"`
	LogHash     uint64            `json:"log_hash"`
	Draws       int64             `json:"draws"`
	DetHash     string            `json:"det_hash,omitempty"` // bytes of a fixed Deterministic(true) marshal, compared across processes
}

const maxSigs = 1 << 19

// hangMarker is where a worker leaves a note before exiting with status 3
// when one run exceeds the wall-clock limit (suspected non-termination).
var hangMarker string
var traceFile string
var curRes *workerResult
var curOut string

type crashNote struct {
	hangNote
	Stderr string
}

type hangNote struct {
	Prop    string `json:"prop"`
	Tier    string `json:"tier"`
	Base    uint64 `json:"base_seed"`
	RunSeed uint64 `json:"run_seed"`
	W       int    `json:"w"`
	R       int    `json:"r"`
	LimitS  int    `json:"limit_s"`
}

func hangLimit() time.Duration { return time.Duration(envInt("VERIF_HANG_S", 60)) * time.Second }

// armWatchdog: seam-free infinite loops inside the library cannot be seen by
// step counting, so a generous wall-clock limit per run (normal runs take
// milliseconds) ends the process with status 3; the parent then re-executes
// exactly that run in a fresh process and only reports it if it hangs again.
// armWatchdogFn arms the same CPU-aware watchdog with a custom action.
func armWatchdogFn(action func()) *watchdog {
	wd := &watchdog{}
	cpu0 := cpuSeconds()
	periods := 0
	var fire func()
	fire = func() {
		periods++
		used := cpuSeconds() - cpu0
		if used < hangLimit().Seconds()/4 && periods < 30 {
			wd.mu.Lock()
			if !wd.stopped {
				wd.t = time.AfterFunc(hangLimit(), fire)
			}
			wd.mu.Unlock()
			return
		}
		wd.mu.Lock()
		stopped := wd.stopped
		wd.mu.Unlock()
		if !stopped {
			action()
		}
	}
	wd.t = time.AfterFunc(hangLimit(), fire)
	return wd
}

func armWatchdog(marker, prop, tier string, base, rs uint64, w, r int) *watchdog {
	wd := &watchdog{}
	cpu0 := cpuSeconds()
	periods := 0
	var fire func()
	fire = func() {
		// A spinning library burns CPU; a starved or suspended process does
		// not. Only count a period in which this process really consumed CPU
		// (a quarter of the limit), otherwise wait for another period.
		periods++
		used := cpuSeconds() - cpu0
		if used < hangLimit().Seconds()/4 && periods < 30 {
			wd.mu.Lock()
			if !wd.stopped {
				wd.t = time.AfterFunc(hangLimit(), fire)
			}
			wd.mu.Unlock()
			return
		}
		if marker != "" {
			b, _ := json.Marshal(hangNote{prop, tier, base, rs, w, r, int(hangLimit() / time.Second)})
			os.WriteFile(marker, b, 0o644)
		}
		fmt.Fprintf(os.Stderr, "verifsim: run w=%d r=%d seed=%d still running after %v wall / %.0fs CPU: suspected non-termination\n", w, r, rs, time.Duration(periods)*hangLimit(), used)
		os.Exit(3)
	}
	wd.t = time.AfterFunc(hangLimit(), fire)
	return wd
}

type watchdog struct {
	mu      sync.Mutex
	t       *time.Timer
	stopped bool
}

func (w *watchdog) Stop() {
	w.mu.Lock()
	w.stopped = true
	w.t.Stop()
	w.mu.Unlock()
}

func cpuSeconds() float64 {
	var ru syscall.Rusage
	if syscall.Getrusage(syscall.RUSAGE_SELF, &ru) != nil {
		return 0
	}
	return float64(ru.Utime.Sec+ru.Stime.Sec) + float64(ru.Utime.Usec+ru.Stime.Usec)/1e6
}

func cmdWorker(args []string) int {
	fs := flag.NewFlagSet("worker", flag.ExitOnError)
	prop := fs.String("prop", "", "")
	tier := fs.String("tier", "quick", "")
	seed := fs.Uint64("seed", 1, "")
	w := fs.Int("w", 0, "")
	runs := fs.Int("runs", 1000, "")
	out := fs.String("out", "", "")
	first := fs.Int("first", 0, "first run index")
	trace := fs.String("trace", "", "write the index of the run about to start into this file (used to locate a fatal crash)")
	fs.Parse(args)
	traceFile = *trace
	runtime.GOMAXPROCS(1)
	debug.SetGCPercent(-1)
	debug.SetMemoryLimit(3 << 30) // safety net only; never reached by a well-behaved run
	// A hard ceiling as well: a library that allocates without bound must kill
	// this worker (located and reported as C20/fatal-crash), not the machine.
	syscall.Setrlimit(syscall.RLIMIT_AS, &syscall.Rlimit{Cur: 10 << 30, Max: 10 << 30})
	loadKnown()
	if *out != "" {
		hangMarker = *out + ".hang"
		curOut = *out
	}
	spec := registry()[*prop]
	if spec == nil {
		fmt.Fprintln(os.Stderr, "unknown property", *prop)
		return 2
	}
	if pf := os.Getenv("VERIF_CPUPROFILE"); pf != "" {
		if f, err := os.Create(pf); err == nil {
			pprof.StartCPUProfile(f)
			defer pprof.StopCPUProfile()
		}
	}
	res := workerLoop(spec, *prop, *tier, *seed, *w, *first, *runs)
	b, _ := json.Marshal(res)
	if *out == "" {
		os.Stdout.Write(b)
	} else if err := os.WriteFile(*out, b, 0o644); err != nil {
		fmt.Fprintln(os.Stderr, err)
		return 2
	}
	return 0
}

func runSeed(base uint64, w, r int) uint64 { return core.Mix(base, uint64(w), uint64(r)) }

func workerLoop(spec *propSpec, prop, tier string, seed uint64, w, first, runs int) *workerResult {
	t0 := time.Now()
	res := &workerResult{Prop: prop, Faults: map[string]int64{}, Probes: map[string]int64{}, KnownHits: map[string]int64{}, AbortedKeys: map[string]int64{}}
	curRes = res
	stats := core.NewStats()
	sigs := map[uint64]struct{}{}
	nsigs := map[uint64]struct{}{}
	reported := map[string]bool{}
	for r := first; r < first+runs; r++ {
		if r%64 == 63 {
			runtime.GC() // memory hygiene at a fixed run index (GC is otherwise off)
		}
		rs := runSeed(seed, w, r)
		if traceFile != "" {
			os.WriteFile(traceFile, []byte(strconv.Itoa(r)), 0o644)
		}
		tape := core.NewTape(rs)
		wantPlan := len(res.Samples) < 2 && r >= first+runs/2
		wd := armWatchdog(hangMarker, prop, tier, seed, rs, w, r)
		o := runOne(spec, prop, tier, tape, stats, wantPlan)
		wd.Stop()
		res.Runs++
		res.Draws += int64(o.Draws)
		res.LogHash = core.Mix(res.LogHash, o.LogHash)
		room := len(sigs) < maxSigs
		if room {
			sigs[stats.Sig] = struct{}{}
		} else {
			res.SigsSat = true
		}
		if stats.Nontrivial {
			res.Nontrivial++
			if room {
				nsigs[stats.Sig] = struct{}{} // (a subset of sigs, capped together with it)
			}
		}
		if wantPlan && o.Plan != nil && len(o.Viols) == 0 {
			if b, err := json.Marshal(o.Plan); err == nil && len(b) < 6000 {
				res.Samples = append(res.Samples, b)
			}
		}
		for _, v := range o.Viols {
			if knownSet[v.Key()] {
				res.KnownHits[v.Key()]++
				continue
			}
			if v.Property != prop {
				res.Aborted++
				res.AbortedKeys[v.Key()]++
				continue
			}
			if reported[v.Key()] {
				continue
			}
			reported[v.Key()] = true
			rep := shrinkAndRecord(spec, prop, tier, seed, rs, w, v, o)
			res.Violations = append(res.Violations, rep)
		}
		if len(res.Violations) >= 3 {
			break
		}
	}
	if prop == "C18" {
		a, _, _ := scen.DetMapBytes(37)
		sum := sha256.Sum256(a)
		res.DetHash = hex.EncodeToString(sum[:8])
	}
	res.Steps = stats.Steps
	for k, v := range stats.Faults {
		res.Faults[k] = v
	}
	for k, v := range stats.Probes {
		res.Probes[k] = v
	}
	for s := range sigs {
		res.Sigs = append(res.Sigs, s)
	}
	for s := range nsigs {
		res.NontrivSigs = append(res.NontrivSigs, s)
	}
	sort.Slice(res.Sigs, func(i, j int) bool { return res.Sigs[i] < res.Sigs[j] })
	sort.Slice(res.NontrivSigs, func(i, j int) bool { return res.NontrivSigs[i] < res.NontrivSigs[j] })
	res.WallS = time.Since(t0).Seconds()
	return res
}

type replayFile struct {
	Format     int                 `json:"format"`
	Property   string              `json:"property"`
	Class      string              `json:"class"`
	Site       string              `json:"site"`
	Scenario   string              `json:"scenario"`
	Tier       string              `json:"tier"`
	BaseSeed   uint64              `json:"base_seed"`
	RunSeed    uint64              `json:"run_seed"`
	Tape       map[string][]uint32 `json:"tape"`
	Plan       any                 `json:"plan"`
	Violation  core.Violation      `json:"violation"`
	RepoTree   string              `json:"repo_tree"`
	ShrunkFrom int                 `json:"shrunk_from_draws"`
	ShrunkTo   int                 `json:"shrunk_to_draws"`
	Note       string              `json:"note,omitempty"`
	Hang       bool                `json:"hang,omitempty"`
	HangProp   string              `json:"hang_prop,omitempty"`
	Crash      bool                `json:"crash,omitempty"`
	CrashW     int                 `json:"crash_w,omitempty"`
	CrashR     int                 `json:"crash_r,omitempty"`
}

func countDraws(t map[string][]uint32) int {
	n := 0
	for _, v := range t {
		n += len(v)
	}
	return n
}

func shrinkAndRecord(spec *propSpec, prop, tier string, base, rs uint64, w int, v core.Violation, o runOutcome) violationReport {
	key := v.Key()
	stats := core.NewStats()
	best := o.Tape
	// A shrink candidate may itself send the library into an endless loop (a
	// different defect than the one being minimised). Guard every candidate:
	// on expiry, record the violation with the best tape found so far, hand the
	// partial result to the parent and end this worker.
	giveUp := func() {
		rf := replayFile{Format: 1, Property: v.Property, Class: v.Class, Site: v.Site, Scenario: spec.Scenario, Tier: tier, BaseSeed: base, RunSeed: rs,
			Tape: best, Violation: v, RepoTree: repoTree(), ShrunkFrom: countDraws(o.Tape), ShrunkTo: countDraws(best),
			Note: "minimisation was cut short: one of the candidate runs did not terminate (a second, different defect); the tape is the best one found until then"}
		b, _ := json.MarshalIndent(rf, "", " ")
		sum := sha256.Sum256([]byte(key + fmt.Sprint(rs)))
		path := filepath.Join(verifDir, "replays", fmt.Sprintf("%s-%d-%s.json", prop, base, hex.EncodeToString(sum[:4])))
		os.MkdirAll(filepath.Dir(path), 0o755)
		os.WriteFile(path, b, 0o644)
		if curRes != nil && curOut != "" {
			curRes.Violations = append(curRes.Violations, violationReport{Violation: v, RunSeed: rs, ReplayFile: path, ShrunkFrom: countDraws(o.Tape), ShrunkTo: countDraws(best), WorkerIndex: w})
			if rb, err := json.Marshal(curRes); err == nil {
				os.WriteFile(curOut, rb, 0o644)
			}
		}
		fmt.Fprintf(os.Stderr, "verifsim: a minimisation candidate for %s did not terminate; recorded the violation with the tape found so far\n", key)
		os.Exit(0)
	}
	test := func(rec map[string][]uint32) bool {
		wd := armWatchdogFn(giveUp)
		defer wd.Stop()
		t := core.NewReplayTape(rs, rec)
		oo := runOne(spec, prop, tier, t, stats, false)
		for _, vv := range oo.Viols {
			if vv.Key() == key {
				best = oo.Tape
				return true
			}
		}
		return false
	}
	from := countDraws(o.Tape)
	rec := o.Tape
	nruns := 0
	// confirm in-process first
	if test(rec) {
		deadline := time.Now().Add(45 * time.Second)
		rec, nruns = core.ShrinkTape(rec, func(c map[string][]uint32) bool {
			if time.Now().After(deadline) {
				return false
			}
			return test(c)
		}, 3000)
	}
	// final rendering
	wdF := armWatchdogFn(giveUp)
	t := core.NewReplayTape(rs, rec)
	oo := runOne(spec, prop, tier, t, stats, true)
	wdF.Stop()
	vv := v
	for _, x := range oo.Viols {
		if x.Key() == key {
			vv = x
		}
	}
	rf := replayFile{Format: 1, Property: v.Property, Class: v.Class, Site: v.Site, Scenario: spec.Scenario, Tier: tier, BaseSeed: base, RunSeed: rs,
		Tape: oo.Tape, Plan: oo.Plan, Violation: vv, RepoTree: repoTree(), ShrunkFrom: from, ShrunkTo: countDraws(oo.Tape)}
	b, _ := json.MarshalIndent(rf, "", " ")
	sum := sha256.Sum256([]byte(key + fmt.Sprint(rs)))
	name := fmt.Sprintf("%s-%d-%s.json", prop, base, hex.EncodeToString(sum[:4]))
	dir := filepath.Join(verifDir, "replays")
	os.MkdirAll(dir, 0o755)
	path := filepath.Join(dir, name)
	os.WriteFile(path, b, 0o644)
	return violationReport{Violation: vv, RunSeed: rs, ReplayFile: path, ShrunkFrom: from, ShrunkTo: countDraws(oo.Tape), ShrinkRuns: nruns, WorkerIndex: w}
}

func repoTree() string {
	out, err := exec.Command("git", "-C", "/repo", "rev-parse", "--short", "HEAD").Output()
	if err != nil {
		return "unknown"
	}
	s := strings.TrimSpace(string(out))
	if d, err := exec.Command("git", "-C", "/repo", "status", "--porcelain").Output(); err == nil && len(strings.TrimSpace(string(d))) > 0 {
		sum := sha256.Sum256(d)
		s += "+dirty-" + hex.EncodeToString(sum[:4])
	}
	return s
}

// ---------------------------------------------------------------------------
// replay

func cmdReplay(args []string) int {
	if len(args) < 1 {
		fmt.Fprintln(os.Stderr, "usage: verifsim replay <file>")
		return 2
	}
	runtime.GOMAXPROCS(1)
	debug.SetGCPercent(-1)
	loadKnown()
	b, err := os.ReadFile(args[0])
	if err != nil {
		fmt.Fprintln(os.Stderr, err)
		return 2
	}
	var rf replayFile
	if err := json.Unmarshal(b, &rf); err != nil {
		fmt.Fprintln(os.Stderr, "bad replay file:", err)
		return 2
	}
	if rf.Crash {
		cmd := exec.Command(os.Args[0], "worker", "-prop", rf.HangProp, "-tier", rf.Tier, "-seed", fmt.Sprint(rf.BaseSeed), "-w", fmt.Sprint(rf.CrashW), "-first", fmt.Sprint(rf.CrashR), "-runs", "1")
		cmd.Env = append(os.Environ(), "VERIF_DIR="+verifDir)
		out, err := cmd.CombinedOutput()
		if err != nil {
			msg := string(out)
			if len(msg) > 800 {
				msg = msg[:800]
			}
			fmt.Printf("REPRODUCED property=C20 class=C20/fatal-crash site=%s\nthe child process died: %v\n%s\n", rf.Site, err, msg)
			fmt.Printf("VIOLATION property=C20 replay=%s\n", args[0])
			return 1
		}
		fmt.Println("NOT-REPRODUCED C20|C20/fatal-crash: the run completed")
		return 0
	}
	if rf.Hang {
		spec := registry()[rf.HangProp]
		if spec == nil {
			fmt.Fprintln(os.Stderr, "no scenario for", rf.HangProp)
			return 2
		}
		done := make(chan struct{})
		go func() {
			select {
			case <-done:
			case <-time.After(hangLimit()):
				fmt.Printf("REPRODUCED property=C20 class=C20/nontermination site=%s\nthe run did not finish within %v\n", rf.Site, hangLimit())
				fmt.Printf("VIOLATION property=C20 replay=%s\n", args[0])
				os.Exit(1)
			}
		}()
		runOne(spec, rf.HangProp, rf.Tier, core.NewTape(rf.RunSeed), core.NewStats(), false)
		close(done)
		fmt.Println("NOT-REPRODUCED C20|C20/nontermination: the run finished")
		return 0
	}
	prop := rf.Property
	spec := registry()[prop]
	if len(args) > 1 {
		prop = args[1]
		spec = registry()[prop]
	}
	if spec == nil {
		// the violation may belong to another property than the scenario's
		// owner (e.g. C20 found during a C05 run); find a spec by scenario name
		for p, s := range registry() {
			if s.Scenario == rf.Scenario {
				spec, prop = s, p
				break
			}
		}
	}
	if spec == nil {
		fmt.Fprintln(os.Stderr, "no scenario for", rf.Property)
		return 2
	}
	stats := core.NewStats()
	t := core.NewReplayTape(rf.RunSeed, rf.Tape)
	o := runOne(spec, prop, rf.Tier, t, stats, true)
	key := rf.Property + "|" + rf.Class + "|" + rf.Site
	for _, v := range o.Viols {
		if v.Key() == key {
			fmt.Printf("REPRODUCED property=%s class=%s site=%s\n%s\n", v.Property, v.Class, v.Site, v.Detail)
			fmt.Printf("VIOLATION property=%s replay=%s\n", v.Property, args[0])
			return 1
		}
	}
	fmt.Printf("NOT-REPRODUCED %s (got %d other violations)\n", key, len(o.Viols))
	for _, v := range o.Viols {
		fmt.Printf("  other: %s: %s\n", v.Key(), v.Detail)
	}
	return 0
}

// ---------------------------------------------------------------------------
// check (parent)

func envInt(name string, def int) int {
	if s := os.Getenv(name); s != "" {
		if v, err := strconv.Atoi(s); err == nil {
			return v
		}
	}
	return def
}

func cmdCheck(args []string) int {
	fs := flag.NewFlagSet("check", flag.ExitOnError)
	prop := fs.String("prop", "", "")
	tier := fs.String("tier", "quick", "")
	nw := fs.Int("workers", 16, "")
	runsOverride := fs.Int("runs", 0, "")
	fs.Parse(args)
	loadKnown()
	spec := registry()[*prop]
	if spec == nil {
		fmt.Fprintln(os.Stderr, "unknown property", *prop)
		return 2
	}
	seed := uint64(1)
	if s := os.Getenv("VERIF_SEED"); s != "" {
		if v, err := strconv.ParseInt(s, 10, 64); err == nil {
			seed = uint64(v)
		}
	}
	total := spec.QuickRuns
	if *tier == "thorough" {
		total = spec.ThorRuns
	}
	if *runsOverride > 0 {
		total = *runsOverride
	}
	if m := envInt("VERIF_RUNS_PCT", 100); m != 100 {
		total = total * m / 100
	}
	per := (total + *nw - 1) / *nw
	if os.Getenv("VERIF_NO_EVIDENCE") != "" {
		noEvidence = true
	}
	t0 := time.Now()
	tmp, err := os.MkdirTemp(filepath.Join(verifDir, "bin"), "run-")
	if err != nil {
		fmt.Fprintln(os.Stderr, err)
		return 2
	}
	defer os.RemoveAll(tmp)
	chunk := per
	if spec.Chunk > 0 && spec.Chunk < per {
		chunk = spec.Chunk
	}
	type slotResult struct {
		res     []*workerResult
		err     error
		hangs   []hangNote
		crashes []crashNote
	}
	ch := make(chan slotResult, *nw)
	for w := 0; w < *nw; w++ {
		go func(w int) {
			var sr slotResult
			for first := 0; first < per; first += chunk {
				n := chunk
				if first+n > per {
					n = per - first
				}
				out := filepath.Join(tmp, fmt.Sprintf("w%d-%d.json", w, first))
				cmd := exec.Command(os.Args[0], "worker", "-prop", *prop, "-tier", *tier, "-seed", fmt.Sprint(seed), "-w", fmt.Sprint(w), "-first", fmt.Sprint(first), "-runs", fmt.Sprint(n), "-out", out)
				cmd.Stderr = os.Stderr
				cmd.Env = append(os.Environ(), "VERIF_DIR="+verifDir)
				if err := cmd.Run(); err != nil {
					if ee, ok := err.(*exec.ExitError); ok && ee.ExitCode() == 3 {
						if hb, herr := os.ReadFile(out + ".hang"); herr == nil {
							var hn hangNote
							if json.Unmarshal(hb, &hn) == nil {
								sr.hangs = append(sr.hangs, hn)
								if len(sr.hangs) >= 2 {
									break // enough evidence from this slot; do not keep feeding runs into an endless loop
								}
								// skip the hanging run and carry on behind it
								first = hn.R + 1 - chunk
								continue
							}
						}
					}
					// The process died (fatal runtime error such as a stack overflow or
					// concurrent map writes cannot be recovered in-process). Locate the
					// run by executing the same chunk again with a trace file.
					tr := out + ".trace"
					cmd2 := exec.Command(os.Args[0], "worker", "-prop", *prop, "-tier", *tier, "-seed", fmt.Sprint(seed), "-w", fmt.Sprint(w), "-first", fmt.Sprint(first), "-runs", fmt.Sprint(n), "-out", out, "-trace", tr)
					cmd2.Env = cmd.Env
					var eb strings.Builder
					cmd2.Stderr = &eb
					err2 := cmd2.Run()
					if tb, terr := os.ReadFile(tr); err2 != nil && terr == nil {
						if r, perr := strconv.Atoi(strings.TrimSpace(string(tb))); perr == nil {
							msg := eb.String()
							if len(msg) > 1500 {
								msg = msg[:1500]
							}
							sr.crashes = append(sr.crashes, crashNote{hangNote{*prop, *tier, seed, runSeed(seed, w, r), w, r, 0}, msg})
							first = r + 1 - chunk
							continue
						}
					}
					if err2 == nil {
						// it completed the second time: not reproducible, carry on with its result
						goto readResult
					}
					sr.err = fmt.Errorf("worker %d (runs %d..%d): %v", w, first, first+n, err)
					break
				}
			readResult:
				b, err := os.ReadFile(out)
				if err != nil {
					sr.err = err
					break
				}
				var r workerResult
				if err := json.Unmarshal(b, &r); err != nil {
					sr.err = err
					break
				}
				sr.res = append(sr.res, &r)
				if len(r.Violations) >= 3 {
					break
				}
			}
			ch <- sr
		}(w)
	}
	var results []*workerResult
	var hangs []hangNote
	var crashes []crashNote
	trouble := false
	for w := 0; w < *nw; w++ {
		sr := <-ch
		if sr.err != nil {
			fmt.Fprintln(os.Stderr, "worker failed:", sr.err)
			trouble = true
		}
		results = append(results, sr.res...)
		hangs = append(hangs, sr.hangs...)
		crashes = append(crashes, sr.crashes...)
	}
	if trouble {
		fmt.Println("TROUBLE: a worker process failed; no verdict")
		return 2
	}
	// merge
	m := &workerResult{Prop: *prop, Faults: map[string]int64{}, Probes: map[string]int64{}, KnownHits: map[string]int64{}, AbortedKeys: map[string]int64{}}
	sigs := map[uint64]struct{}{}
	nsigs := map[uint64]struct{}{}
	for _, r := range results {
		m.Runs += r.Runs
		m.Steps += r.Steps
		m.Draws += r.Draws
		m.Nontrivial += r.Nontrivial
		m.Aborted += r.Aborted
		m.SigsSat = m.SigsSat || r.SigsSat
		for k, v := range r.Faults {
			m.Faults[k] += v
		}
		for k, v := range r.Probes {
			m.Probes[k] += v
		}
		for k, v := range r.KnownHits {
			m.KnownHits[k] += v
		}
		for k, v := range r.AbortedKeys {
			m.AbortedKeys[k] += v
		}
		for _, s := range r.Sigs {
			sigs[s] = struct{}{}
		}
		for _, s := range r.NontrivSigs {
			nsigs[s] = struct{}{}
		}
		if len(m.Samples) < 3 {
			m.Samples = append(m.Samples, r.Samples...)
		}
		m.Violations = append(m.Violations, r.Violations...)
		m.LogHash = core.Mix(m.LogHash, r.LogHash)
	}
	// confirm violations by fresh-process replay
	exit := 0
	confirmed := 0
	seenKey := map[string]bool{}
	var lines []string
	for _, v := range m.Violations {
		if seenKey[v.Violation.Key()] {
			continue
		}
		seenKey[v.Violation.Key()] = true
		cmd := exec.Command(os.Args[0], "replay", v.ReplayFile, *prop)
		cmd.Env = append(os.Environ(), "VERIF_DIR="+verifDir)
		out, err := cmd.CombinedOutput()
		code := 0
		if ee, ok := err.(*exec.ExitError); ok {
			code = ee.ExitCode()
		} else if err != nil {
			code = 2
		}
		if code != 1 || !strings.Contains(string(out), "REPRODUCED property=") {
			fmt.Printf("TROUBLE: violation %s found by worker %d did not reproduce in a fresh process (replay exit %d); file %s\n%s\n", v.Violation.Key(), v.WorkerIndex, code, v.ReplayFile, out)
			exit = 2
			continue
		}
		confirmed++
		fmt.Printf("violation: class=%s site=%s shrunk %d->%d draws\n  %s\n", v.Violation.Class, v.Violation.Site, v.ShrunkFrom, v.ShrunkTo, v.Violation.Detail)
		lines = append(lines, fmt.Sprintf("VIOLATION property=%s replay=%s", v.Violation.Property, v.ReplayFile))
	}
	for i, cn := range crashes {
		if i >= 2 {
			break
		}
		rf := replayFile{Format: 1, Property: "C20", Class: "C20/fatal-crash", Site: spec.Scenario, Scenario: spec.Scenario, Tier: cn.Tier, BaseSeed: cn.Base, RunSeed: cn.RunSeed,
			Violation: core.Violation{Property: "C20", Class: "C20/fatal-crash", Site: spec.Scenario, Detail: fmt.Sprintf("the process executing run w=%d r=%d died: %s", cn.W, cn.R, cn.Stderr)},
			RepoTree:  repoTree(), Crash: true, HangProp: *prop, CrashW: cn.W, CrashR: cn.R, Note: "a fatal runtime error kills the process, so there is no recorded tape to minimise: replay re-executes the run from its seed in a child process"}
		b, _ := json.MarshalIndent(rf, "", " ")
		path := filepath.Join(verifDir, "replays", fmt.Sprintf("%s-%d-crash-%d-%d.json", *prop, seed, cn.W, cn.R))
		os.MkdirAll(filepath.Dir(path), 0o755)
		os.WriteFile(path, b, 0o644)
		cmd := exec.Command(os.Args[0], "replay", path)
		cmd.Env = append(os.Environ(), "VERIF_DIR="+verifDir)
		out, _ := cmd.CombinedOutput()
		if strings.Contains(string(out), "REPRODUCED property=C20") {
			fmt.Printf("violation: class=C20/fatal-crash: run w=%d r=%d kills the process again when re-executed\n  %s\n", cn.W, cn.R, strings.SplitN(cn.Stderr, "\n", 3)[0])
			if *prop == "C20" {
				confirmed++
				lines = append(lines, fmt.Sprintf("VIOLATION property=C20 replay=%s", path))
			} else {
				m.Aborted++
				m.AbortedKeys["C20|C20/fatal-crash|"+spec.Scenario]++
			}
		} else {
			fmt.Printf("note: a worker process died once but the run completed when re-executed; not a finding: %s\n", path)
			os.Remove(path)
		}
	}
	for i, hn := range hangs {
		if i >= 2 {
			break
		}
		rf := replayFile{Format: 1, Property: "C20", Class: "C20/nontermination", Site: spec.Scenario, Scenario: spec.Scenario, Tier: hn.Tier, BaseSeed: hn.Base, RunSeed: hn.RunSeed,
			Violation: core.Violation{Property: "C20", Class: "C20/nontermination", Site: spec.Scenario, Detail: fmt.Sprintf("run w=%d r=%d did not finish within %d s (normal runs take milliseconds)", hn.W, hn.R, hn.LimitS)},
			RepoTree:  repoTree(), Hang: true, HangProp: *prop, Note: "the run never finished, so there is no recorded tape to minimise: replay regenerates the run from run_seed"}
		b, _ := json.MarshalIndent(rf, "", " ")
		path := filepath.Join(verifDir, "replays", fmt.Sprintf("%s-%d-hang-%d-%d.json", *prop, seed, hn.W, hn.R))
		os.MkdirAll(filepath.Dir(path), 0o755)
		os.WriteFile(path, b, 0o644)
		cmd := exec.Command(os.Args[0], "replay", path)
		cmd.Env = append(os.Environ(), "VERIF_DIR="+verifDir)
		out, _ := cmd.CombinedOutput()
		if strings.Contains(string(out), "REPRODUCED property=C20") {
			fmt.Printf("violation: class=C20/nontermination: run w=%d r=%d hangs again in a fresh process\n", hn.W, hn.R)
			if *prop == "C20" {
				confirmed++
				lines = append(lines, fmt.Sprintf("VIOLATION property=C20 replay=%s", path))
			} else {
				m.Aborted++
				m.AbortedKeys["C20|C20/nontermination|"+spec.Scenario]++
			}
		} else {
			// not a finding: the machine was starved; the run itself is fine
			fmt.Printf("note: a run exceeded the time limit once but finished when re-executed in a fresh process (machine load); not a finding: %s\n", path)
			os.Remove(path)
		}
	}
	for _, k := range knownList {
		if k.Property != *prop {
			continue
		}
		n := m.KnownHits[k.Property+"|"+k.Class+"|"+k.Site]
		fmt.Printf("KNOWN-FINDING: property=%s class=%s site=%s %s (reproduced %d times in this run)\n", k.Property, k.Class, k.Site, k.Text, n)
	}
	if *prop == "C18" {
		// Deterministic(true): identical bytes across processes (Go seeds its
		// map iteration differently in every process)
		hashes := map[string]int{}
		for _, r := range results {
			if r.DetHash != "" {
				hashes[r.DetHash]++
			}
		}
		m.Probes[fmt.Sprintf("hist/deterministic-across-%d-processes", len(results))] = int64(len(hashes))
		if len(hashes) > 1 {
			rf := map[string]any{"format": 1, "property": "C18", "class": "C18/deterministic-differs-across-processes", "scenario": "hist", "base_seed": seed,
				"violation": map[string]any{"property": "C18", "class": "C18/deterministic-differs-across-processes", "detail": fmt.Sprintf("Marshal(fixed map, Deterministic(true)) hashed differently in different worker processes: %v", hashes)},
				"note":      "re-run `bin/verifsim worker -prop C18 -runs 1` several times and compare det_hash"}
			b, _ := json.MarshalIndent(rf, "", " ")
			path := filepath.Join(verifDir, "replays", fmt.Sprintf("C18-%d-deterministic-across-processes.json", seed))
			os.MkdirAll(filepath.Dir(path), 0o755)
			os.WriteFile(path, b, 0o644)
			fmt.Printf("violation: class=C18/deterministic-differs-across-processes %v\n", hashes)
			lines = append(lines, "VIOLATION property=C18 replay="+path)
			confirmed++
		}
		ev, rl, rc := auxRace(seed, *tier)
		auxRaceEvidence = ev
		lines = append(lines, rl...)
		confirmed += len(rl)
		if rc == 2 && exit == 0 {
			exit = 2
		}
	}
	wall := time.Since(t0).Seconds()
	if !noEvidence {
		writeEvidence(*prop, *tier, seed, spec, m, len(sigs), len(nsigs), wall, *nw, confirmed)
	}
	fmt.Printf("%s %s: runs=%d steps=%d nontrivial=%d distinct_signatures=%d (nontrivial %d) aborted_other=%d wall=%.1fs\n", *prop, *tier, m.Runs, m.Steps, m.Nontrivial, len(sigs), len(nsigs), m.Aborted, wall)
	for k, n := range m.AbortedKeys {
		fmt.Printf("  (other property, not this check's to report) %s x%d\n", k, n)
	}
	for _, l := range lines {
		fmt.Println(l)
	}
	if len(lines) > 0 {
		return 1
	}
	return exit
}

func writeEvidence(prop, tier string, seed uint64, spec *propSpec, m *workerResult, nsig, nnsig int, wall float64, nw int, viol int) {
	var samples []any
	for _, s := range m.Samples {
		var x any
		if json.Unmarshal(s, &x) == nil {
			samples = append(samples, x)
		}
		if len(samples) >= 3 {
			break
		}
	}
	if len(samples) == 0 {
		samples = append(samples, "no sample plan small enough to render")
	}
	rule := spec.Rule
	if m.SigsSat {
		rule += " (signature sets were capped per worker; the distinct counts are lower bounds)"
	}
	cov := map[string]any{
		"evaluations":                 m.Runs,
		"distinct_nontrivial":         nnsig,
		"rule":                        rule,
		"samples":                     samples,
		"runs_per_hour":               int64(float64(m.Runs) / wall * 3600),
		"seeds_per_hour":              int64(float64(m.Runs) / wall * 3600),
		"scheduler_steps":             m.Steps,
		"simulated_time":              "n/a - the library has no clock, timer or deadline; progress is counted in scheduler steps (seam crossings / API calls)",
		"faults_fired":                m.Faults,
		"probes":                      m.Probes,
		"signatures_distinct":         nsig,
		"nontrivial_runs":             m.Nontrivial,
		"aborted_runs_other_property": m.Aborted,
		"aborted_by_key":              m.AbortedKeys,
		"known_finding_hits":          m.KnownHits,
		"components_real":             spec.Real,
		"components_stub":             spec.Stub,
		"workers":                     nw,
		"tape_draws":                  m.Draws,
		"event_log_hash":              fmt.Sprintf("%016x", m.LogHash),
		"exhaustive":                  false,
	}
	if auxRaceEvidence != nil {
		cov["aux_race"] = auxRaceEvidence
	}
	ev := map[string]any{
		"property_id": prop,
		"tier":        tier,
		"seed":        int64(seed),
		"level":       "exploration",
		"coverage":    cov,
		"assumptions": []string{
			"seeded sampling, not enumeration: a clean batch is evidence, not proof",
			"the reference recognizer/serializer/model in /verif/sim/refjson is correct",
			"one P (GOMAXPROCS=1) and GC off inside a run: sync.Pool behaves deterministically; real-parallel data races are outside the deterministic core",
		},
		"wall_s":     wall,
		"violations": viol,
	}
	b, _ := json.MarshalIndent(ev, "", " ")
	dir := filepath.Join(verifDir, "evidence")
	os.MkdirAll(dir, 0o755)
	os.WriteFile(filepath.Join(dir, prop+".json"), b, 0o644)
}

// ---------------------------------------------------------------------------
// selftest: determinism across processes

func cmdSelftest(args []string) int {
	fs := flag.NewFlagSet("selftest", flag.ExitOnError)
	props := fs.String("props", "", "comma separated (default all)")
	runs := fs.Int("runs", 300, "")
	procs := fs.Int("procs", 30, "")
	fs.Parse(args)
	var ps []string
	if *props == "" {
		for p := range registry() {
			ps = append(ps, p)
		}
	} else {
		ps = strings.Split(*props, ",")
	}
	sort.Strings(ps)
	bad := 0
	for _, p := range ps {
		hashes := map[string]int{}
		type res struct {
			h   string
			err error
		}
		ch := make(chan res, *procs)
		for i := 0; i < *procs; i++ {
			go func(i int) {
				cmd := exec.Command(os.Args[0], "worker", "-prop", p, "-seed", "7", "-w", "3", "-runs", fmt.Sprint(*runs))
				gmp := []string{"1", "4", "16"}[i%3]
				cmd.Env = append(os.Environ(), "GOMAXPROCS="+gmp, "VERIF_DIR="+verifDir)
				out, err := cmd.Output()
				if err != nil {
					ch <- res{"", err}
					return
				}
				var r workerResult
				if err := json.Unmarshal(out, &r); err != nil {
					ch <- res{"", err}
					return
				}
				ch <- res{fmt.Sprintf("%016x/steps=%d/draws=%d/viol=%d", r.LogHash, r.Steps, r.Draws, len(r.Violations)), nil}
			}(i)
		}
		for i := 0; i < *procs; i++ {
			r := <-ch
			if r.err != nil {
				fmt.Println("selftest worker error:", r.err)
				bad++
				continue
			}
			hashes[r.h]++
		}
		if len(hashes) != 1 {
			fmt.Printf("NONDETERMINISM %s: %v\n", p, hashes)
			bad++
		} else {
			for h := range hashes {
				fmt.Printf("deterministic %s: %d processes x %d runs -> %s\n", p, *procs, *runs, h)
			}
		}
	}
	if bad > 0 {
		return 2
	}
	return 0
}

// ---------------------------------------------------------------------------
// auxiliary race-detector run (C18); this subcommand is meant to be executed
// by the binary built with -race

func cmdRace(args []string) int {
	fs := flag.NewFlagSet("race", flag.ExitOnError)
	seed := fs.Uint64("seed", 1, "")
	g := fs.Int("goroutines", 16, "")
	dur := fs.Duration("dur", 8*time.Second, "")
	out := fs.String("out", "", "")
	fs.Parse(args)
	runtime.GOMAXPROCS(16)
	res := scen.RunRace(*seed, *g, *dur)
	b, _ := json.Marshal(res)
	if *out != "" {
		os.WriteFile(*out, b, 0o644)
	} else {
		os.Stdout.Write(b)
	}
	if len(res.Mismatches) > 0 {
		return 1
	}
	return 0
}

// auxRace runs the race binary (if present) and returns evidence and
// VIOLATION lines.
func auxRace(seed uint64, tier string) (map[string]any, []string, int) {
	bin := os.Args[0] + "-race"
	if _, err := os.Stat(bin); err != nil {
		return map[string]any{"built": false}, nil, 0
	}
	dur := "8s"
	if tier == "thorough" {
		dur = "300s"
	}
	tmp, _ := os.MkdirTemp(filepath.Join(verifDir, "bin"), "race-")
	defer os.RemoveAll(tmp)
	out := filepath.Join(tmp, "race.json")
	logp := filepath.Join(tmp, "racelog")
	cmd := exec.Command(bin, "race", "-seed", fmt.Sprint(seed), "-dur", dur, "-out", out)
	cmd.Env = append(os.Environ(), "GORACE=halt_on_error=1 exitcode=66 log_path="+logp, "VERIF_DIR="+verifDir)
	cmd.Stderr = os.Stderr
	err := cmd.Run()
	code := 0
	if ee, ok := err.(*exec.ExitError); ok {
		code = ee.ExitCode()
	} else if err != nil {
		return map[string]any{"built": true, "error": err.Error()}, nil, 2
	}
	ev := map[string]any{"built": true, "exit": code, "note": "auxiliary, outside the deterministic core: real goroutines under the race detector; findings replay only probabilistically"}
	var rr scen.RaceResult
	if b, err := os.ReadFile(out); err == nil && json.Unmarshal(b, &rr) == nil {
		ev["calls"], ev["goroutines"], ev["specs"], ev["wall_s"], ev["mismatches"] = rr.Calls, rr.Goroutines, rr.Specs, rr.WallS, len(rr.Mismatches)
	}
	var lines []string
	writeReplay := func(class, detail string) string {
		rf := map[string]any{"format": 1, "property": "C18", "class": class, "scenario": "hist/aux-race", "tier": tier, "base_seed": seed,
			"violation": map[string]any{"property": "C18", "class": class, "detail": detail},
			"note":      "auxiliary race-detector run on real goroutines: re-run with `bin/verifsim-race race -seed <base_seed>`; the interleaving is not under the simulator's control, so this replays only probabilistically", "repo_tree": repoTree()}
		b, _ := json.MarshalIndent(rf, "", " ")
		path := filepath.Join(verifDir, "replays", fmt.Sprintf("C18-%d-race-%s.json", seed, strings.ReplaceAll(strings.TrimPrefix(class, "C18/"), "/", "-")))
		os.MkdirAll(filepath.Dir(path), 0o755)
		os.WriteFile(path, b, 0o644)
		return path
	}
	switch {
	case code == 66:
		report := ""
		if ms, _ := filepath.Glob(logp + "*"); len(ms) > 0 {
			if b, err := os.ReadFile(ms[0]); err == nil {
				report = string(b)
				if len(report) > 3000 {
					report = report[:3000]
				}
			}
		}
		fmt.Printf("violation: class=C18/data-race (race detector report)\n%s\n", report)
		lines = append(lines, "VIOLATION property=C18 replay="+writeReplay("C18/data-race", report))
	case code == 1:
		d := strings.Join(rr.Mismatches, "\n")
		fmt.Printf("violation: class=C18/concurrent-differs-from-alone\n%s\n", d)
		lines = append(lines, "VIOLATION property=C18 replay="+writeReplay("C18/concurrent-differs-from-alone", d))
	case code != 0:
		fmt.Printf("note: the auxiliary race run ended with status %d\n", code)
		return ev, nil, 2
	}
	return ev, lines, 0
}
