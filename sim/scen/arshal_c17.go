package scen

import (
	"errors"
	"fmt"
	"reflect"
	"sort"
	"strings"
	"time"

	json "github.com/go-json-experiment/json"
	"github.com/go-json-experiment/json/jsontext"

	"verifsim/core"
	"verifsim/peers"
	"verifsim/refjson"
)

// Dispatch is the C17 scenario: one generated method-set type at one position
// kind, a list of option-supplied functions, a behaviour per candidate and a
// cache history; the peers log what actually ran and a rule model transcribed
// from the documentation predicts the log and the outcome.
type Dispatch struct{}

type DispatchPlan struct {
	Side     string                     `json:"side"` // marshal | unmarshal
	Code     string                     `json:"method_set"`
	Position string                     `json:"position"`
	Funcs    []string                   `json:"funcs"` // "to" / "bytes" per list entry, in order
	JoinDeep bool                       `json:"join_nested"`
	JoinSib  bool                       `json:"join_with_sibling"` // our list = Join(base, last); afterwards a sibling Join(base, decoy) is built
	Beh      map[string]peers.Behaviour `json:"behaviours"`
	Warm     []string                   `json:"warmup"` // earlier calls that populate the caches
	NilPtr   bool                       `json:"nil_pointer"`
}

var marshalPositions = []string{"omitempty-field-zero-string", "top", "top-pointer", "field", "field-nonaddr", "slice-elem", "array-elem-nonaddr", "map-value", "map-key", "in-interface", "pointer-in-interface", "pointer-field"}
var unmarshalPositions = []string{"top", "slice-elem", "field", "map-value", "pointer-field", "in-array-first"}

func sortedCodes(m map[string]reflect.Type) []string {
	var ks []string
	for k := range m {
		ks = append(ks, k)
	}
	sort.Strings(ks)
	return ks
}

var mCodes = sortedCodes(peers.MatrixMarshalTypes)
var uCodes = sortedCodes(peers.MatrixUnmarshalTypes)

func (sc *Dispatch) plan(t *core.Tape) *DispatchPlan {
	p := &DispatchPlan{Beh: map[string]peers.Behaviour{}}
	s := t.S("plan")
	if s.Chance(2, 5) {
		p.Side = "unmarshal"
		p.Code = uCodes[s.Draw(len(uCodes))]
		p.Position = unmarshalPositions[s.Draw(len(unmarshalPositions))]
	} else {
		p.Side = "marshal"
		p.Code = mCodes[s.Draw(len(mCodes))]
		p.Position = marshalPositions[s.Draw(len(marshalPositions))]
		p.NilPtr = (p.Position == "pointer-field" || p.Position == "top-pointer" || p.Position == "pointer-in-interface") && s.Chance(1, 5)
	}
	for i, n := 0, s.Weighted(3, 3, 2, 1); i < n; i++ {
		p.Funcs = append(p.Funcs, []string{"to", "bytes"}[s.Weighted(3, 1)])
	}
	p.JoinDeep = s.Bool()
	p.JoinSib = s.Chance(1, 3)
	bs := t.S("behaviours")
	names := []string{"To", "JSON", "Append", "Text", "From"}
	for i := range p.Funcs {
		names = append(names, fmt.Sprintf("Func%d", i))
	}
	for _, n := range names {
		b := peers.Behaviour{}
		switch bs.Weighted(5, 4, 2, 1, 1, 1, 1, 1, 1, 1) {
		case 1:
			b.Kind = peers.BUnsupported
		case 2:
			b.Kind = peers.BErr
		case 3:
			b.Kind = peers.BUnsupportedAfter
		case 4:
			b.Kind = peers.BZero
		case 5:
			b.Kind = peers.BTwo
		case 6:
			b.Kind = peers.BOpen
		case 7:
			b.Kind = peers.BReset
		case 8:
			b.Kind = peers.BUnsupportedOpen
		case 9:
			b.Kind = peers.BNestedThenReset
		}
		p.Beh[n] = b
	}
	ws := t.S("warm")
	for i, n := 0, ws.Weighted(3, 2, 2, 1, 1); i < n; i++ {
		p.Warm = append(p.Warm, []string{"same-type-top", "same-type-slice", "pointer-type", "with-other-funcs", "unmarshal-same-type", "map-of-type"}[ws.Draw(6)])
	}
	return p
}

// candidate of the documented dispatch order.
type cand struct {
	name string
	kind string // to | bytes | text | default
}

func (p *DispatchPlan) candidates() []cand {
	var cs []cand
	for i, f := range p.Funcs {
		cs = append(cs, cand{fmt.Sprintf("Func%d", i), f})
	}
	if p.Side == "marshal" {
		for i, n := range []string{"To", "JSON", "Append", "Text"} {
			if p.Code[i] != '0' {
				cs = append(cs, cand{n, []string{"to", "bytes", "text", "text"}[i]})
			}
		}
	} else {
		for i, n := range []string{"From", "JSON", "Text"} {
			if p.Code[i] != '0' {
				cs = append(cs, cand{n, []string{"to", "bytes", "text"}[i]})
			}
		}
	}
	return append(cs, cand{"default", "default"})
}

// contextModel positions a grammar model like the encoder at the value's position.
func (p *DispatchPlan) contextModel() *refjson.Model {
	m := refjson.NewModel(refjson.Opts{})
	switch p.Position {
	case "top", "top-pointer":
	case "slice-elem", "array-elem-nonaddr", "in-interface", "pointer-in-interface":
		m.Apply('[', "")
	case "map-key":
		m.Apply('{', "")
	case "field", "field-nonaddr", "omitempty-field-zero-string":
		m.Apply('{', "")
		m.Apply('"', "A")
		m.Apply('0', "")
		m.Apply('"', "F")
	default: // map-value, pointer-field
		m.Apply('{', "")
		m.Apply('"', "k")
	}
	return m
}

// penvNameID mirrors the ID assignment in Run (sorted names get -1, -2, ...).
func penvNameID(p *DispatchPlan, name string) int {
	names := make([]string, 0, len(p.Beh))
	for n := range p.Beh {
		names = append(names, n)
	}
	sort.Strings(names)
	for i, n := range names {
		if n == name {
			return -1 - i
		}
	}
	return 0
}

// predict runs the rule model: which candidates are invoked, in order, and
// whether the call ends in success.
func (p *DispatchPlan) predict(secondAvailable bool) (log []string, ok bool, terminal string) {
	for _, c := range p.candidates() {
		if c.kind == "default" {
			return log, true, "default"
		}
		log = append(log, c.name)
		b := p.Beh[c.name]
		switch c.kind {
		case "to":
			if p.Side == "marshal" {
				// Replay what the peer attempts on the grammar model positioned
				// like the encoder: rejected calls have no effect; afterwards the
				// documented rule is "exactly one value" (or, with
				// ErrUnsupported, "coder untouched").
				m := p.contextModel()
				d0 := m.Depth()
				_, n0 := m.Index(d0)
				try := func(kind byte, name string) {
					if m.CanApply(kind, name) == refjson.OK {
						m.Apply(kind, name)
					}
				}
				unsupported := false
				switch b.Kind {
				case peers.BOK, peers.BReset:
					try('"', "via-"+c.name)
				case peers.BNestedThenReset:
					// one nested value; at a member-name position only a string could be written
					switch penvNameID(p, c.name) & 3 {
					case 0:
						if m.CanApply('[', "") == refjson.OK {
							m.ApplyWholeValue('[', "")
						}
					case 2:
						try('"', "peer-0")
					default:
						if m.CanApply('{', "") == refjson.OK {
							m.ApplyWholeValue('{', "")
						}
					}
				case peers.BZero:
				case peers.BTwo:
					try('"', "via-"+c.name)
					try('0', "")
				case peers.BOpen:
					if penvNameID(p, c.name)%2 == 0 {
						try('[', "")
						try('0', "")
					} else {
						try('{', "")
						try('"', "open")
					}
				case peers.BUnsupported:
					unsupported = true
				case peers.BUnsupportedAfter:
					try('"', "used")
					unsupported = true
				case peers.BUnsupportedOpen:
					try('[', "")
					unsupported = true
				case peers.BErr:
					return log, false, c.name
				}
				_, n1 := m.Index(d0)
				touched := m.Depth() != d0 || n1 != n0
				if unsupported {
					if !touched {
						continue
					}
					return log, false, c.name
				}
				if m.Depth() == d0 && n1 == n0+1 {
					if b.Kind == peers.BOpen {
						return log, true, c.name + "/open"
					}
					if b.Kind == peers.BNestedThenReset {
						return log, true, c.name + "/nested"
					}
					return log, true, c.name
				}
				return log, false, c.name
			}
			switch b.Kind {
			case peers.BUnsupported:
				continue // untouched coder: next candidate
			case peers.BOK, peers.BReset, peers.BOpen, peers.BNestedThenReset:
				// (BOpen on the unmarshal side reads one token; the value here is
				// a string, so that is exactly one value)
				return log, true, c.name
			case peers.BTwo:
				if !secondAvailable {
					return log, true, c.name // the second read fails and is ignored by the peer
				}
				return log, false, c.name
			default:
				return log, false, c.name
			}
		default: // bytes, text: no coder, ErrUnsupported is not allowed
			switch b.Kind {
			case peers.BOK, peers.BReset, peers.BOpen, peers.BZero, peers.BTwo, peers.BNestedThenReset:
				// byte-returning peers ignore coder-only behaviours except where the interpreter maps them
				if c.kind == "bytes" && p.Side == "marshal" && (b.Kind == peers.BOpen || b.Kind == peers.BZero || b.Kind == peers.BTwo) {
					return log, false, c.name // malformed bytes returned
				}
				return log, true, c.name
			default:
				return log, false, c.name
			}
		}
	}
	return log, true, "default"
}

// AnyLike is a named empty interface: a function declared for it applies to
// every value, exactly like one declared for any.
type AnyLike interface{}

// runNamedEmptyInterface: functions for a named empty interface must be
// consulted wherever functions for `any` would be, in particular for the
// bool/string/float64/map/slice values reached through an any-typed position
// (where the library otherwise takes a specialised untyped route).
func (sc *Dispatch) runNamedEmptyInterface(t *core.Tape, env *Env) (any, []core.Violation) {
	s := t.S("plan-nei")
	var viols []core.Violation
	leafs := []any{true, "s", 1.5, map[string]any{}, []any{}}
	li := s.Draw(len(leafs))
	leaf := leafs[li]
	pos := s.Draw(3)
	if li == 1 && pos == 1 {
		pos = 0 // a function of interface type also applies to map keys, which are strings
	}
	if li == 3 && pos == 1 {
		pos = 0 // the enclosing map would have the leaf's own type
	}
	if li == 4 && pos == 0 {
		pos = 1 // likewise for the enclosing slice
	}
	side := s.Draw(2)
	plan := map[string]any{"mode": "named-empty-interface", "leaf": fmt.Sprintf("%T", leaf), "position": pos, "side": []string{"marshal", "unmarshal"}[side]}
	calls := 0
	// the function declines the any-typed position itself (a *any) and accepts
	// only a pointer to the concrete leaf type, so a call proves that the
	// value behind the interface was looked up on its own
	isLeaf := func(v any) bool {
		rv := reflect.ValueOf(v)
		return rv.Kind() == reflect.Pointer && !rv.IsNil() && rv.Type().Elem() == reflect.TypeOf(leaf)
	}
	if side == 0 {
		fn := json.MarshalToFunc(func(enc *jsontext.Encoder, v AnyLike) error {
			if !isLeaf(v) {
				return errors.ErrUnsupported
			}
			calls++
			return enc.WriteToken(jsontext.String("via-fn"))
		})
		var in any
		var want string
		switch pos {
		case 0:
			in, want = []any{leaf}, `["via-fn"]`
		case 1:
			in, want = map[string]any{"k": leaf}, `{"k":"via-fn"}`
		default:
			in, want = struct{ F any }{leaf}, `{"F":"via-fn"}`
		}
		out, err := json.Marshal(in, json.WithMarshalers(fn))
		env.Stats.Steps++
		if err != nil || string(out) != want || calls != 1 {
			viols = append(viols, core.Violationf("C17", "C17/dispatch-order", "marshal/named-empty-interface-func", "a MarshalToFunc for a named empty interface was called %d times for a %T inside %T: output %s err=%v, expected %s", calls, leaf, in, clip(out, 80), classify(err), want))
		}
	} else {
		texts := []string{`true`, `"s"`, `1.5`, `{}`, `[]`}
		marks := []any{false, "via-fn", 99.0, map[string]any{"via": "fn"}, []any{"via-fn"}}
		fn := json.UnmarshalFromFunc(func(dec *jsontext.Decoder, v AnyLike) error {
			if !isLeaf(v) || dec.StackDepth() == 0 {
				return errors.ErrUnsupported
			}
			calls++
			if err := dec.SkipValue(); err != nil {
				return err
			}
			reflect.ValueOf(v).Elem().Set(reflect.ValueOf(marks[li]))
			return nil
		})
		var target, want any
		var text string
		switch pos {
		case 0:
			target, text, want = new([]any), `[`+texts[li]+`]`, &[]any{marks[li]}
		case 1:
			target, text, want = new(map[string]any), `{"k":`+texts[li]+`}`, &map[string]any{"k": marks[li]}
		default:
			target, text, want = new(struct{ F any }), `{"F":`+texts[li]+`}`, &struct{ F any }{marks[li]}
		}
		err := json.Unmarshal([]byte(text), target, json.WithUnmarshalers(fn))
		env.Stats.Steps++
		if err != nil || !reflect.DeepEqual(target, want) || calls != 1 {
			viols = append(viols, core.Violationf("C17", "C17/dispatch-order", "unmarshal/named-empty-interface-func", "an UnmarshalFromFunc for a named empty interface was called %d times for %s into %T: result %s err=%v, expected %s", calls, text, target, renderAny(target), classify(err), renderAny(want)))
		}
	}
	env.Stats.Nontrivial = true
	env.Stats.SigAdd(0x171, uint64(li), uint64(pos), uint64(side))
	env.Stats.Probe("c17/named-empty-interface-func")
	return plan, viols
}

type c17Named string
type c17Struct struct{ A int }

// funcBehindAny: a function declared for a concrete type must be called for a
// value of that type wherever it sits - directly, behind a pointer, and behind
// an any-typed position (slice element, map value, struct field), where the
// library has specialised untyped routes for some dynamic types.
func funcBehindAny[T any](s *core.Stream, st *core.Stats, leaf T, viols *[]core.Violation) {
	calls := 0
	byPtr := s.Bool()
	var fn *json.Marshalers
	if byPtr {
		fn = json.MarshalToFunc(func(enc *jsontext.Encoder, v *T) error {
			calls++
			return enc.WriteToken(jsontext.String("via-fn"))
		})
	} else {
		fn = json.MarshalFunc(func(v T) ([]byte, error) {
			calls++
			return []byte(`"via-fn"`), nil
		})
	}
	var in any
	var want string
	n := 1
	switch pos := s.Draw(6); pos {
	case 0:
		in, want = []any{leaf}, `["via-fn"]`
	case 1:
		in, want = map[string]any{"k": leaf}, `{"k":"via-fn"}`
	case 2:
		in, want = struct{ F any }{leaf}, `{"F":"via-fn"}`
	case 3:
		in, want, n = []any{[]any{leaf, leaf}, map[string]any{"k": []any{leaf}}}, `[["via-fn","via-fn"],{"k":["via-fn"]}]`, 3
	case 4:
		in, want, n = struct {
			F T
			G any
			H *T
		}{leaf, leaf, &leaf}, `{"F":"via-fn","G":"via-fn","H":"via-fn"}`, 3
	default:
		in, want = []any{&leaf}, `["via-fn"]`
	}
	out, err := json.Marshal(in, json.WithMarshalers(fn))
	st.Steps++
	if err != nil || string(out) != want || calls != n {
		*viols = append(*viols, core.Violationf("C17", "C17/dispatch-order", "marshal/func-for-concrete-type-behind-any", "a marshal function for %T (pointer form %v) was called %d times, expected %d, for %T: output %s err=%v, expected %s", leaf, byPtr, calls, n, in, clip(out, 120), classify(err), want))
	}
	st.Probe("c17/func-behind-any")
}

func (sc *Dispatch) runFuncBehindAny(t *core.Tape, env *Env) (any, []core.Violation) {
	s := t.S("plan-fba")
	var viols []core.Violation
	k := s.Draw(14)
	switch k {
	case 0:
		funcBehindAny(s, env.Stats, int(5), &viols)
	case 1:
		funcBehindAny(s, env.Stats, int64(-7), &viols)
	case 2:
		funcBehindAny(s, env.Stats, uint8(200), &viols)
	case 3:
		funcBehindAny(s, env.Stats, uint64(1)<<63, &viols)
	case 4:
		funcBehindAny(s, env.Stats, float32(1.5), &viols)
	case 5:
		funcBehindAny(s, env.Stats, c17Named("n"), &viols)
	case 6:
		funcBehindAny(s, env.Stats, c17Struct{1}, &viols)
	case 7:
		funcBehindAny(s, env.Stats, []int{1}, &viols)
	case 8:
		funcBehindAny(s, env.Stats, []byte("b"), &viols)
	case 9:
		funcBehindAny(s, env.Stats, map[string]int{"a": 1}, &viols)
	case 10:
		funcBehindAny(s, env.Stats, time.Duration(5), &viols)
	case 11:
		funcBehindAny(s, env.Stats, time.Unix(0, 0).UTC(), &viols)
	case 12:
		funcBehindAny(s, env.Stats, [2]int{1, 2}, &viols)
	default:
		funcBehindAny(s, env.Stats, jsontext.Value(`{"raw":1}`), &viols)
	}
	env.Stats.Nontrivial = true
	env.Stats.SigAdd(0x172, uint64(k))
	return map[string]any{"mode": "func-for-concrete-type-behind-any", "type": k}, viols
}

func (sc *Dispatch) Run(t *core.Tape, env *Env) (any, []core.Violation) {
	switch ms := t.S("mode"); {
	case ms.Chance(1, 12):
		return sc.runNamedEmptyInterface(t, env)
	case ms.Chance(1, 12):
		return sc.runFuncBehindAny(t, env)
	}
	p := sc.plan(t)
	st := env.Stats
	var viols []core.Violation
	report := func(prop, class, site, f string, a ...any) bool {
		v := core.Violationf(prop, class, site, f, a...)
		viols = append(viols, v)
		return v.Property == env.Prop && !env.Known[v.Key()]
	}
	penv := &peers.Env{Beh: map[int]peers.Behaviour{0: {Payload: `"peer-0"`}}, Names: map[string]int{}}
	id := -1
	for n, b := range p.Beh {
		_ = n
		_ = b
	}
	names := make([]string, 0, len(p.Beh))
	for n := range p.Beh {
		names = append(names, n)
	}
	sort.Strings(names)
	for _, n := range names {
		b := p.Beh[n]
		b.Payload = fmt.Sprintf("%q", "via-"+n)
		b.Text = "via-" + n
		penv.Names[n] = id
		penv.Beh[id] = b
		id--
	}
	// the caller's options must be the ones visible inside the call
	penv.CheckOpts = func(o jsontext.Options) string {
		if v, ok := json.GetOption(o, jsontext.EscapeForHTML); !ok || !v {
			return "EscapeForHTML(true) passed by the caller is not visible inside the call"
		}
		if v, ok := json.GetOption(o, json.Deterministic); !ok || !v {
			return "Deterministic(true) passed by the caller is not visible inside the call"
		}
		return ""
	}
	peers.Cur = penv
	defer func() { peers.Cur = &peers.Env{} }()

	var typ reflect.Type
	if p.Side == "marshal" {
		typ = peers.MatrixMarshalTypes[p.Code]
		if p.Position == "omitempty-field-zero-string" {
			// a string-kind type holding "" in an omitempty field: whether the
			// member stays is decided by the JSON the user method produces, so the
			// method must be consulted although the Go value is zero-length
			typ = peers.MatrixStringMarshalTypes[p.Code]
		}
	} else {
		typ = peers.MatrixUnmarshalTypes[p.Code]
	}
	isTarget := func(v any) bool {
		rt := reflect.TypeOf(v)
		return rt == typ || rt == reflect.PointerTo(typ)
	}

	// option-supplied functions (of interface type: they apply to every
	// position, map keys included; they are always handed a non-nil pointer)
	var mlist []*json.Marshalers
	var ulist []*json.Unmarshalers
	for i, f := range p.Funcs {
		name := fmt.Sprintf("Func%d", i)
		if p.Side == "marshal" {
			if f == "to" {
				mlist = append(mlist, json.MarshalToFunc(func(enc *jsontext.Encoder, v peers.Matrix) error {
					if !isTarget(v) {
						return fmt.Errorf("function called with a %T", v)
					}
					if reflect.ValueOf(v).Kind() == reflect.Pointer && reflect.ValueOf(v).IsNil() {
						penv.Findings = append(penv.Findings, name+" called with a nil pointer")
					}
					return penv.MatrixTo(name, enc)
				}))
			} else {
				mlist = append(mlist, json.MarshalFunc(func(v peers.Matrix) ([]byte, error) {
					if reflect.ValueOf(v).Kind() == reflect.Pointer && reflect.ValueOf(v).IsNil() {
						penv.Findings = append(penv.Findings, name+" called with a nil pointer")
					}
					return penv.MatrixBytes(name)
				}))
			}
		} else {
			if f == "to" {
				ulist = append(ulist, json.UnmarshalFromFunc(func(dec *jsontext.Decoder, v peers.Matrix) error {
					if reflect.ValueOf(v).Kind() != reflect.Pointer || reflect.ValueOf(v).IsNil() {
						penv.Findings = append(penv.Findings, name+" not called with a non-nil pointer")
					}
					_, err := penv.MatrixFrom(name, dec)
					return err
				}))
			} else {
				ulist = append(ulist, json.UnmarshalFunc(func(b []byte, v peers.Matrix) error {
					_, err := penv.MatrixUnBytes(name, b)
					return err
				}))
			}
		}
	}
	opts := []json.Options{jsontext.EscapeForHTML(true), json.Deterministic(true)}
	if len(mlist) > 0 {
		j := json.JoinMarshalers(mlist...)
		if p.JoinDeep && len(mlist) > 1 {
			j = json.JoinMarshalers(json.JoinMarshalers(mlist[0]), json.JoinMarshalers(mlist[1:]...))
		}
		if p.JoinSib {
			// a list derived from a shared base must stay independent of its siblings
			pad := json.MarshalFunc(func(struct{ neverUsed int }) ([]byte, error) { return nil, nil })
			base := json.JoinMarshalers(append([]*json.Marshalers{pad, pad}, mlist[:len(mlist)-1]...)...)
			j = json.JoinMarshalers(base, mlist[len(mlist)-1])
			decoy := json.MarshalToFunc(func(enc *jsontext.Encoder, v peers.Matrix) error {
				penv.Findings = append(penv.Findings, "a function from a sibling Marshalers list was called")
				return errors.ErrUnsupported
			})
			_ = json.JoinMarshalers(base, decoy)
		}
		opts = append(opts, json.WithMarshalers(j))
	}
	if len(ulist) > 0 {
		j := json.JoinUnmarshalers(ulist...)
		if p.JoinDeep && len(ulist) > 1 {
			j = json.JoinUnmarshalers(json.JoinUnmarshalers(ulist[0]), json.JoinUnmarshalers(ulist[1:]...))
		}
		if p.JoinSib {
			pad := json.UnmarshalFunc(func([]byte, *struct{ neverUsed int }) error { return nil })
			base := json.JoinUnmarshalers(append([]*json.Unmarshalers{pad, pad}, ulist[:len(ulist)-1]...)...)
			j = json.JoinUnmarshalers(base, ulist[len(ulist)-1])
			decoy := json.UnmarshalFromFunc(func(dec *jsontext.Decoder, v peers.Matrix) error {
				penv.Findings = append(penv.Findings, "a function from a sibling Unmarshalers list was called")
				return errors.ErrUnsupported
			})
			_ = json.JoinUnmarshalers(base, decoy)
		}
		opts = append(opts, json.WithUnmarshalers(j))
	}
	if p.Side != "marshal" {
		for _, b := range p.Beh {
			if b.Kind == peers.BNestedThenReset {
				// the nested UnmarshalDecode made by that peer meets a function that
				// declines without touching the decoder; the enclosing user call is
				// still in progress afterwards (Reset must keep panicking)
				decl := json.UnmarshalFromFunc(func(dec *jsontext.Decoder, v *peers.NestedStr) error { return errors.ErrUnsupported })
				if len(ulist) > 0 {
					last := opts[len(opts)-1]
					u, _ := json.GetOption(last, json.WithUnmarshalers)
					opts[len(opts)-1] = json.WithUnmarshalers(json.JoinUnmarshalers(u, decl))
				} else {
					opts = append(opts, json.WithUnmarshalers(decl))
				}
				break
			}
		}
	}

	// cache history
	for _, w := range p.Warm {
		sc.warm(w, typ, opts, penv)
	}
	penv.Log = nil
	penv.Findings = nil

	if p.Side == "marshal" {
		sc.runMarshal(p, typ, opts, penv, st, report)
	} else {
		sc.runUnmarshal(p, typ, opts, penv, st, report)
	}
	for _, f := range penv.Findings {
		if report("C17", "C17/peer-side-finding", p.Side, "%s (type %s%s at %s)", f, map[string]string{"marshal": "M", "unmarshal": "U"}[p.Side], p.Code, p.Position) {
			break
		}
	}
	nmis := 0
	for _, b := range p.Beh {
		if b.Kind != peers.BOK {
			nmis++
		}
	}
	if nmis > 0 || len(p.Warm) > 0 {
		st.Nontrivial = true
	}
	st.SigAdd(0x17, hashBytes([]byte(p.Side+p.Code+p.Position+strings.Join(p.Funcs, ",")+strings.Join(p.Warm, ","))))
	for _, n := range names {
		st.SigAdd(uint64(p.Beh[n].Kind))
	}
	return p, viols
}

// warm performs an earlier, unrelated call so that the arshaler caches are
// populated in a drawn order before the call under test.
func (sc *Dispatch) warm(kind string, typ reflect.Type, opts []json.Options, penv *peers.Env) {
	defer func() { recover() }()
	saved := penv.Beh
	// during warm-up every candidate behaves well (the history should only differ by cache contents)
	penv.Beh = map[int]peers.Behaviour{}
	for _, id := range penv.Names {
		penv.Beh[id] = peers.Behaviour{Payload: `"warm"`, Text: "warm"}
	}
	defer func() { penv.Beh = saved }()
	v := reflect.New(typ)
	switch kind {
	case "same-type-top":
		json.Marshal(v.Elem().Interface())
	case "same-type-slice":
		json.Marshal(reflect.MakeSlice(reflect.SliceOf(typ), 2, 2).Interface(), opts...)
	case "pointer-type":
		json.Marshal(v.Interface(), opts...)
	case "with-other-funcs":
		json.Marshal(v.Interface(), json.WithMarshalers(json.MarshalFunc(func(peers.Matrix) ([]byte, error) { return []byte(`"other"`), nil })))
	case "unmarshal-same-type":
		json.Unmarshal([]byte(`"x"`), v.Interface())
	case "map-of-type":
		m := reflect.MakeMap(reflect.MapOf(reflect.TypeFor[string](), typ))
		m.SetMapIndex(reflect.ValueOf("k"), v.Elem())
		json.Marshal(m.Interface(), opts...)
	}
}

func (sc *Dispatch) runMarshal(p *DispatchPlan, typ reflect.Type, opts []json.Options, penv *peers.Env, st *core.Stats, report func(prop, class, site, f string, a ...any) bool) {
	val := reflect.New(typ).Elem()
	if typ.Kind() == reflect.Struct {
		val.Field(0).SetInt(7)
	}
	tString := reflect.TypeFor[string]()
	var in any
	var wrapPre, wrapPost string
	switch p.Position {
	case "top":
		in = val.Interface()
	case "top-pointer":
		ptr := reflect.New(typ)
		ptr.Elem().Set(val)
		if p.NilPtr {
			ptr = reflect.Zero(reflect.PointerTo(typ))
		}
		in = ptr.Interface()
	case "omitempty-field-zero-string":
		st := reflect.StructOf([]reflect.StructField{{Name: "A", Type: reflect.TypeFor[int]()}, {Name: "F", Type: typ, Tag: `json:",omitempty"`}})
		sv := reflect.New(st)
		in = sv.Interface()
		wrapPre, wrapPost = `{"A":0,"F":`, `}`
	case "field", "field-nonaddr":
		st := reflect.StructOf([]reflect.StructField{{Name: "A", Type: reflect.TypeFor[int]()}, {Name: "F", Type: typ}})
		sv := reflect.New(st)
		sv.Elem().Field(1).Set(val)
		if p.Position == "field" {
			in = sv.Interface()
		} else {
			in = sv.Elem().Interface()
		}
		wrapPre, wrapPost = `{"A":0,"F":`, `}`
	case "slice-elem":
		sl := reflect.MakeSlice(reflect.SliceOf(typ), 1, 1)
		sl.Index(0).Set(val)
		in = sl.Interface()
		wrapPre, wrapPost = `[`, `]`
	case "array-elem-nonaddr":
		av := reflect.New(reflect.ArrayOf(1, typ)).Elem()
		av.Index(0).Set(val)
		in = av.Interface()
		wrapPre, wrapPost = `[`, `]`
	case "map-value":
		m := reflect.MakeMap(reflect.MapOf(tString, typ))
		m.SetMapIndex(reflect.ValueOf("k"), val)
		in = m.Interface()
		wrapPre, wrapPost = `{"k":`, `}`
	case "map-key":
		m := reflect.MakeMap(reflect.MapOf(typ, tString))
		m.SetMapIndex(val, reflect.ValueOf("v"))
		in = m.Interface()
		wrapPre, wrapPost = `{`, `:"v"}`
	case "in-interface":
		in = []any{val.Interface()}
		wrapPre, wrapPost = `[`, `]`
	case "pointer-in-interface":
		ptr := reflect.New(typ)
		ptr.Elem().Set(val)
		if p.NilPtr {
			ptr = reflect.Zero(reflect.PointerTo(typ))
		}
		in = []any{ptr.Interface()}
		wrapPre, wrapPost = `[`, `]`
	case "pointer-field":
		st := reflect.StructOf([]reflect.StructField{{Name: "P", Type: reflect.PointerTo(typ)}})
		sv := reflect.New(st)
		if !p.NilPtr {
			ptr := reflect.New(typ)
			ptr.Elem().Set(val)
			sv.Elem().Field(0).Set(ptr)
		}
		in = sv.Interface()
		wrapPre, wrapPost = `{"P":`, `}`
	}
	var out []byte
	err, panicked, libPanic, pv := guarded(func() (e error) { out, e = json.Marshal(in, opts...); return })
	st.Steps++
	site := "marshal/" + p.Position
	if panicked && libPanic {
		report("C20", "C20/panic", "Marshal", "panic: %v", pv)
		report("C17", "C17/library-panic", site, "Marshal panicked: %v (type M%s)", pv, p.Code)
		return
	}
	var gotLog []string
	for _, e := range penv.Log {
		if strings.Contains(e.Method, ".") {
			continue // nested helper peers (PTo.MarshalJSONTo) are not candidates of the type under test
		}
		gotLog = append(gotLog, e.Method)
	}
	var wantLog []string
	wantOK := true
	terminal := "default"
	if p.NilPtr {
		terminal = "null"
	} else {
		wantLog, wantOK, terminal = p.predict(false)
	}
	desc := fmt.Sprintf("type %s%s (To,JSON,Append,Text: 0 absent,1 value,2 pointer receiver) at %s, funcs %v, behaviours %s", map[bool]string{true: "M", false: "S"}[typ.Kind() == reflect.Struct], p.Code, p.Position, p.Funcs, behStr(p))
	if p.Position == "map-key" && wantOK && terminal == "default" {
		// the default representation of a struct is not a string: no valid key
		wantOK = false
	}
	if strings.Join(gotLog, ",") != strings.Join(wantLog, ",") {
		if report("C17", "C17/dispatch-order", site, "user code ran in order [%s], documented order gives [%s]; %s", strings.Join(gotLog, ","), strings.Join(wantLog, ","), desc) {
			return
		}
	}
	if (err == nil) != wantOK {
		cls := "C17/policing/error-expected"
		if err != nil {
			cls = "C17/policing/unexpected-error"
		}
		if report("C17", cls, site, "Marshal err=%v (out=%s), model expects ok=%v (terminal candidate %s); %s", classify(err), clip(out, 80), wantOK, terminal, desc) {
			return
		}
	}
	if err == nil && wantOK {
		var want string
		switch terminal {
		case "default":
			want = `{"ID":7}`
		case "null":
			want = "null"
		default:
			want = fmt.Sprintf("%q", "via-"+terminal)
			if strings.HasSuffix(terminal, "/open") {
				want = `"open"`
			}
			if strings.HasSuffix(terminal, "/nested") {
				want = []string{`["peer-0"]`, `{"k":"peer-0"}`, `"peer-0"`, `{"F":"peer-0"}`}[penvNameID(p, strings.TrimSuffix(terminal, "/nested"))&3]
			}
		}
		if p.Position == "omitempty-field-zero-string" && terminal == "default" {
			wrapPre, want, wrapPost = `{"A":0}`, "", "" // "" is an empty JSON value: the member is omitted
		}
		if got := string(out); got != wrapPre+want+wrapPost {
			if report("C17", "C17/representation", site, "output %s, expected %s; %s", clip(out, 100), wrapPre+want+wrapPost, desc) {
				return
			}
		}
		if r := refjson.Scan(out, refjson.Opts{}); r.Status != refjson.Complete || len(r.Values) != 1 {
			report("C02", "C02/nil-error-but-malformed-output", "dispatch/"+p.Position, "output %s", clip(out, 100))
		}
	}
	st.Probe("c17/marshal/terminal-" + terminalClass(terminal))
}

func terminalClass(t string) string {
	if strings.HasPrefix(t, "Func") {
		return "func"
	}
	return t
}

func behStr(p *DispatchPlan) string {
	var ks []string
	for k := range p.Beh {
		ks = append(ks, k)
	}
	sort.Strings(ks)
	var b strings.Builder
	for _, k := range ks {
		if p.Beh[k].Kind != peers.BOK {
			fmt.Fprintf(&b, "%s=%s ", k, peers.KindNames[p.Beh[k].Kind])
		}
	}
	return b.String()
}

func (sc *Dispatch) runUnmarshal(p *DispatchPlan, typ reflect.Type, opts []json.Options, penv *peers.Env, st *core.Stats, report func(prop, class, site, f string, a ...any) bool) {
	tString := reflect.TypeFor[string]()
	var target reflect.Value
	var text string
	second := false // another token follows the value inside its container
	repeat := false // the same type is dispatched for a second element
	switch p.Position {
	case "top":
		target = reflect.New(typ)
		text = `"in"`
	case "slice-elem":
		target = reflect.New(reflect.SliceOf(typ))
		text = `["in","next"]`
		second, repeat = true, true
	case "in-array-first":
		target = reflect.New(reflect.ArrayOf(2, typ))
		text = `["in","next"]`
		second, repeat = true, true
	case "field":
		st := reflect.StructOf([]reflect.StructField{{Name: "F", Type: typ}, {Name: "G", Type: tString}})
		target = reflect.New(st)
		text = `{"F":"in","G":"next"}`
		second = true
	case "map-value":
		target = reflect.New(reflect.MapOf(tString, typ))
		text = `{"k":"in"}`
	case "pointer-field":
		st := reflect.StructOf([]reflect.StructField{{Name: "P", Type: reflect.PointerTo(typ)}})
		target = reflect.New(st)
		text = `{"P":"in"}`
	}
	err, panicked, libPanic, pv := guarded(func() error { return json.Unmarshal([]byte(text), target.Interface(), opts...) })
	st.Steps++
	site := "unmarshal/" + p.Position
	if panicked && libPanic {
		report("C20", "C20/panic", "Unmarshal", "panic: %v", pv)
		report("C17", "C17/library-panic", site, "Unmarshal panicked: %v (type U%s)", pv, p.Code)
		return
	}
	var gotLog []string
	for _, e := range penv.Log {
		if strings.Contains(e.Method, ".") {
			continue // nested helper peers (PTo.MarshalJSONTo) are not candidates of the type under test
		}
		gotLog = append(gotLog, e.Method)
	}
	wantLog, wantOK, terminal := p.predict(second)
	desc := fmt.Sprintf("type U%s (From,JSON,Text: 0 absent,1 value,2 pointer receiver) at %s, funcs %v, behaviours %s", p.Code, p.Position, p.Funcs, behStr(p))
	// With two elements, the second element is dispatched too (same type): the
	// log of the first element must be a prefix.
	g := strings.Join(gotLog, ",")
	w := strings.Join(wantLog, ",")
	okLog := g == w
	if repeat && wantOK {
		okLog = g == w+","+w || (w == "" && g == "")
	}
	if !okLog {
		if report("C17", "C17/dispatch-order", site, "user code ran in order [%s], documented order gives [%s]%s; %s", g, w, map[bool]string{true: " per element", false: ""}[repeat], desc) {
			return
		}
	}
	if (err == nil) != wantOK {
		cls := "C17/policing/error-expected"
		if err != nil {
			cls = "C17/policing/unexpected-error"
		}
		if report("C17", cls, site, "Unmarshal err=%v, model expects ok=%v (terminal candidate %s); %s", classify(err), wantOK, terminal, desc) {
			return
		}
	}
	st.Probe("c17/unmarshal/terminal-" + terminalClass(terminal))
}
