package scen

import (
	"bytes"
	"errors"
	"fmt"
	"strings"

	json "github.com/go-json-experiment/json"
	"github.com/go-json-experiment/json/jsontext"
	jsonv1 "github.com/go-json-experiment/json/v1"

	"verifsim/core"
	"verifsim/gen"
	"verifsim/peers"
)

// V1Misc exercises the v1 helper functions (Indent, Compact, HTMLEscape,
// Valid, MarshalIndent, stream Encoder with SetIndent) with arbitrary prefix
// and indent strings on arbitrary inputs. Only the panic / non-termination
// monitor applies (C20); what they produce is C09's business (not decided
// by this technique).
type V1Misc struct{}

type V1MiscPlan struct {
	Op     string `json:"op"`
	Src    string `json:"src"`
	Prefix string `json:"prefix"`
	Indent string `json:"indent"`
}

var v1Strings = []string{"", " ", "\t", "  ", "ab", "x", ">>", "\n", " \t x", "é"}

func (sc *V1Misc) Run(t *core.Tape, env *Env) (any, []core.Violation) {
	s := t.S("plan")
	p := &V1MiscPlan{}
	p.Op = []string{"Indent", "Indent", "Indent", "Compact", "HTMLEscape", "Valid", "MarshalIndent", "Encoder.SetIndent", "Unmarshal-syntactic-error-from-user-code", "Unmarshal-legacy-user-error-then-continue", "Unmarshal-legacy-user-error-then-continue", "HTMLEscape", "Unmarshal-odd-interface-map-key", "Value-methods", "Value-methods", "Value-methods", "Unmarshal-bytes-formats"}[s.Draw(17)]
	src := gen.Text(s, gen.JSONCfg{MaxBytes: 16 + s.Draw(300), MaxDepth: 1 + s.Draw(4), DupNames: true, InvalidUTF8: s.Chance(1, 4), CollideNames: s.Chance(1, 3)})
	if s.Chance(1, 3) {
		src = gen.Mutate(s, src)
	}
	for i, n := 0, s.Draw(6); i < n; i++ {
		src = append(src, " \n\t\r"[s.Draw(4)])
	}
	if s.Chance(1, 2) {
		src = append(src, '\n')
		for i, n := 0, s.Draw(6); i < n; i++ {
			src = append(src, ' ')
		}
	}
	if s.Chance(1, 4) {
		// texts that end (or are cut) inside a multi-byte character, in particular
		// inside the U+2028/U+2029 sequences that the escapers look ahead for
		tails := []string{"\xe2", "\xe2\x80", "\xe2\x80\xa8", "\"\xe2\x80", "\xf0\x90", "\xc3", "<\xe2", "&\xe2\x80"}
		src = append(src, tails[s.Draw(len(tails))]...)
	}
	p.Src = string(src)
	p.Prefix = v1Strings[s.Draw(len(v1Strings))]
	p.Indent = v1Strings[s.Draw(len(v1Strings))]
	if s.Chance(1, 4) {
		p.Indent = ""
	}
	var viols []core.Violation
	siteSuffix := ""
	err, panicked, lib, pv := guarded(func() error {
		var buf bytes.Buffer
		switch p.Op {
		case "Indent":
			return jsonv1.Indent(&buf, src, p.Prefix, p.Indent)
		case "Compact":
			return jsonv1.Compact(&buf, src)
		case "HTMLEscape":
			jsonv1.HTMLEscape(&buf, src)
		case "Valid":
			jsonv1.Valid(src)
		case "MarshalIndent":
			var x any
			if jsonv1.Unmarshal(src, &x) == nil {
				_, e := jsonv1.MarshalIndent(x, p.Prefix, p.Indent)
				return e
			}
		case "Encoder.SetIndent":
			var x any
			if jsonv1.Unmarshal(src, &x) == nil {
				e := jsonv1.NewEncoder(&buf)
				e.SetIndent(p.Prefix, p.Indent)
				e.SetEscapeHTML(s.Bool())
				return e.Encode(x)
			}
		case "Unmarshal-legacy-user-error-then-continue":
			// under v1 semantics a semantic error is not fatal: the offending value
			// must be skipped and decoding must go on behind it
			kind := []int{peers.BErr, peers.BZero, peers.BUnsupportedAfter, peers.BTwo, peers.BOpen}[s.Draw(5)]
			siteSuffix = "/" + peers.KindNames[kind]
			peers.Cur = &peers.Env{Beh: map[int]peers.Behaviour{0: {Kind: kind}}}
			defer func() { peers.Cur = &peers.Env{} }()
			val := []string{`5`, `"x"`, `[1,2]`, `{"a":{"b":1}}`, `null`, `true`}[s.Draw(6)]
			switch s.Draw(4) {
			case 0:
				var x []peers.U200
				e := jsonv1.Unmarshal([]byte(`[`+val+`,`+val+`,`+val+`]`), &x)
				if len(x) > 3 {
					return fmt.Errorf("verifsim: %d elements decoded from a 3-element array (err %v)", len(x), e)
				}
			case 1:
				var x struct {
					F peers.U200
					G int
				}
				e := jsonv1.Unmarshal([]byte(`{"F":`+val+`,"G":5}`), &x)
				if x.G != 5 && kind == peers.BErr {
					return fmt.Errorf("verifsim: member G after the failing member was not decoded: G=%d err=%v", x.G, e)
				}
			case 2:
				var x map[string]*peers.U220
				jsonv1.Unmarshal([]byte(`{"a":`+val+`,"b":`+val+`}`), &x)
			default:
				var x [2]peers.U200
				jsonv1.Unmarshal([]byte(`[`+val+`,`+val+`,`+val+`]`), &x)
			}
			return nil
		case "Unmarshal-odd-interface-map-key":
			// a map keyed by an interface type: user code decides what the key is;
			// whatever it stores, the library must answer with a value or an error
			keys := []any{[]int{1}, map[string]int{"a": 1}, struct{ S []int }{[]int{1}}, [1][]int{{1}}, struct{ F any }{[]int{1}}, [2]any{1, map[string]int{}}, 1.5, "s", nil, struct{ P *int }{new(int)}, [1]func(){nil}}
			key := keys[s.Draw(len(keys))]
			fn := json.WithUnmarshalers(json.UnmarshalFromFunc(func(dec *jsontext.Decoder, k *any) error {
				if dec.StackDepth() == 0 {
					return errors.ErrUnsupported
				}
				if k, n := dec.StackIndex(dec.StackDepth()); k != '{' || n%2 != 0 {
					return errors.ErrUnsupported // only member names
				}
				if _, err := dec.ReadToken(); err != nil {
					return err
				}
				*k = key
				return nil
			}))
			var m map[any]int
			e := json.Unmarshal([]byte(`{"a":1,"b":2,"a2":3}`), &m, fn)
			var m2 map[any]any
			json.Unmarshal([]byte(`{"a":1,"b":{"c":2}}`), &m2, fn, jsontext.AllowDuplicateNames(true))
			_ = e
			return nil
		case "Unmarshal-bytes-formats":
			// encoded []byte / [N]byte under every `format:` (needs the experimental
			// switch, forced on here): quanta, padding and what may follow it
			json.ExperimentalGlobalSupportFormatTag(true)
			alpha := []string{"A", "T", "G", "a", "f", "0", "7", "9", "=", "=", "-", "_", "+", "/", "\\n", "\\r", " ", "Z", "\\u0041"}
			var in []byte
			for i, n := 0, s.Draw(20); i < n; i++ {
				in = append(in, alpha[s.Draw(len(alpha))]...)
			}
			for i, n := 0, s.Draw(9); i < n; i++ {
				in = append(in, '=')
			}
			for i, n := 0, s.Draw(3); i < n; i++ {
				in = append(in, alpha[s.Draw(len(alpha))]...)
			}
			text := []byte(`{"b":"` + string(in) + `"}`)
			loose := jsonv1.ParseBytesWithLooseRFC4648(s.Bool())
			var t1 struct {
				B []byte `json:"b,format:base64"`
			}
			var t2 struct {
				B []byte `json:"b,format:base64url"`
			}
			var t3 struct {
				B []byte `json:"b,format:base32"`
			}
			var t4 struct {
				B []byte `json:"b,format:base32hex"`
			}
			var t5 struct {
				B []byte `json:"b,format:base16"`
			}
			var t6 struct {
				B [3]byte `json:"b,format:base32"`
			}
			var t7 struct {
				B []byte `json:"b"`
			}
			for _, tgt := range []any{&t1, &t2, &t3, &t4, &t5, &t6, &t7} {
				json.Unmarshal(text, tgt, loose)
			}
			return nil
		case "Value-methods":
			if s.Chance(1, 2) {
				// members that tie: duplicate names whose values (or the names
				// themselves) differ only in how an ill-formed sequence is spelled, so that
				// sorting has to compare valid against ill-formed UTF-8 right at the end
				twins := []string{"\"\xef\xbf\xbd\"", "\"\xef\"", "\"\xef\xbf\"", "\"k\xff\"", "\"k\xef\xbf\xbd\"", "\"k\xef\"", "\"\\ufffd\"", "\"\xf0\x90\x80\"", "\"\xf0\x90\x80\x80\"", "\"\"", "1", "[]"}
				b := []byte{'{'}
				for i, n := 0, 2+s.Draw(4); i < n; i++ {
					if i > 0 {
						b = append(b, ',')
					}
					if s.Chance(2, 3) {
						b = append(b, `"a"`...)
					} else {
						b = append(b, twins[s.Draw(9)]...)
					}
					b = append(b, ':')
					b = append(b, twins[s.Draw(len(twins))]...)
				}
				src = append(b, '}')
			}
			v := jsontext.Value(append([]byte(nil), src...))
			opts := []jsontext.Options{jsontext.AllowInvalidUTF8(s.Bool()), jsontext.AllowDuplicateNames(s.Bool())}
			if s.Chance(1, 3) {
				// everything is let through and kept as it is, only the order changes
				opts = []jsontext.Options{jsontext.AllowInvalidUTF8(true), jsontext.AllowDuplicateNames(true), jsontext.PreserveRawStrings(true), jsontext.ReorderRawObjects(true)}
			} else if s.Bool() {
				opts = append(opts, jsontext.PreserveRawStrings(s.Bool()), jsontext.ReorderRawObjects(s.Bool()), jsontext.CanonicalizeRawInts(s.Bool()), jsontext.CanonicalizeRawFloats(s.Bool()))
			}
			switch s.Draw(5) {
			case 0:
				v.Format(opts...)
			case 1:
				v.Canonicalize(opts...)
			case 2:
				v.Compact(opts...)
			case 3:
				v.Indent(opts...)
			default:
				jsontext.AppendFormat(nil, v, opts...)
			}
			v.IsValid(opts...)
			v.Kind()
			return nil
		case "Unmarshal-syntactic-error-from-user-code":
			// user code may return any error value, also a bare SyntacticError
			var x v1BadErr
			return jsonv1.Unmarshal(src, &x)
		}
		return nil
	})
	_ = err
	env.Stats.Steps++
	if !panicked && err != nil && strings.HasPrefix(err.Error(), "verifsim:") {
		viols = append(viols, core.Violationf("C20", "C20/legacy-error-recovery", "v1."+p.Op, "%v", err))
	}
	if panicked && lib {
		viols = append(viols, core.Violationf("C20", "C20/panic", "v1."+p.Op+siteSuffix, "v1.%s%s(%s, prefix=%q, indent=%q) panicked: %v", p.Op, siteSuffix, clip(src, 120), p.Prefix, p.Indent, pv))
	}
	env.Stats.Probe("v1misc/" + p.Op)
	env.Stats.Nontrivial = true
	env.Stats.SigAdd(0x71, hashBytes([]byte(fmt.Sprint(p.Op, p.Prefix, "|", p.Indent))), hashBytes(src))
	_ = peers.BOK
	return p, viols
}

// v1BadErr's UnmarshalJSON returns error values a careless implementation might return.
type v1BadErr struct{ n int }

func (v *v1BadErr) UnmarshalJSON(b []byte) error {
	switch len(b) % 4 {
	case 0:
		return &jsontext.SyntacticError{}
	case 1:
		return &jsontext.SyntacticError{ByteOffset: int64(len(b))}
	case 2:
		return &jsontext.SyntacticError{JSONPointer: "/x"}
	}
	return nil
}
