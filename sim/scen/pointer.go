package scen

import (
	"bytes"
	"strings"

	"github.com/go-json-experiment/json/jsontext"

	"verifsim/core"
	"verifsim/refjson"
)

// PointerAlgebra checks that Pointer's methods are mutually consistent under
// RFC 6901 escaping, and that a Decoder walking nested objects with those
// names reports the same pointer. (A pure clause of C16; it rides along.)
type PointerAlgebra struct{}

type PointerPlan struct {
	Tokens []string `json:"tokens"`
}

var ptrTokenFamily = []string{"a", "", "a/b", "m~n", "~", "/", "~0", "~1", "~01", "ä", "日本", "0", "12", "-", " ", "a~/b~/c", "😀", "k0"}

func (sc *PointerAlgebra) Run(t *core.Tape, env *Env) (any, []core.Violation) {
	s := t.S("plan")
	p := &PointerPlan{}
	for i, n := 0, s.Draw(6); i < n; i++ {
		p.Tokens = append(p.Tokens, ptrTokenFamily[s.Draw(len(ptrTokenFamily))])
	}
	var viols []core.Violation
	report := func(class, f string, a ...any) {
		viols = append(viols, core.Violationf("C16", class, "Pointer", f, a...))
	}
	esc := func(tok string) string {
		return strings.ReplaceAll(strings.ReplaceAll(tok, "~", "~0"), "/", "~1")
	}
	var ptr jsontext.Pointer
	want := ""
	for i, tok := range p.Tokens {
		parent := ptr
		ptr = ptr.AppendToken(tok)
		want += "/" + esc(tok)
		if string(ptr) != want {
			report("C16/pointer-methods/AppendToken", "AppendToken(%q) gave %q, RFC 6901 escaping gives %q", tok, ptr, want)
			return p, viols
		}
		if !ptr.IsValid() {
			report("C16/pointer-methods/IsValid", "%q reported invalid", ptr)
		}
		if ptr.LastToken() != tok {
			report("C16/pointer-methods/LastToken", "%q.LastToken()=%q want %q", ptr, ptr.LastToken(), tok)
		}
		if ptr.Parent() != parent {
			report("C16/pointer-methods/Parent", "%q.Parent()=%q want %q", ptr, ptr.Parent(), parent)
		}
		if !parent.Contains(ptr) || !ptr.Contains(ptr) || ptr.Contains(parent) {
			report("C16/pointer-methods/Contains", "Contains inconsistent for %q / %q", parent, ptr)
		}
		var got []string
		for tk := range ptr.Tokens() {
			got = append(got, tk)
		}
		if strings.Join(got, "\x00") != strings.Join(p.Tokens[:i+1], "\x00") || len(got) != i+1 {
			report("C16/pointer-methods/Tokens", "%q.Tokens()=%q want %q", ptr, got, p.Tokens[:i+1])
		}
	}
	// a decoder descending through objects with these names reports the same pointer
	if len(p.Tokens) > 0 {
		var b bytes.Buffer
		for _, tok := range p.Tokens {
			b.WriteString("{" + refjson.Quote(tok, false, false) + ":")
		}
		b.WriteString("1" + strings.Repeat("}", len(p.Tokens)))
		d := jsontext.NewDecoder(core.NewSimReader(b.Bytes(), core.ReadPlan{MaxChunk: 1 + s.Draw(9)}))
		for i := 0; i < 2*len(p.Tokens)+1; i++ {
			if _, err := d.ReadToken(); err != nil {
				report("C16/pointer-methods/decoder", "unexpected error %v", classify(err))
				return p, viols
			}
		}
		if d.StackPointer() != ptr {
			report("C16/observer/pointer", "decoder StackPointer=%q, built pointer %q", d.StackPointer(), ptr)
		}
	}
	env.Stats.Steps++
	env.Stats.Nontrivial = len(p.Tokens) > 1
	env.Stats.SigAdd(0x6901, hashBytes([]byte(strings.Join(p.Tokens, "\x00"))))
	return p, viols
}
