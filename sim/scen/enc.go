package scen

import (
	"bytes"
	"fmt"
	"io"
	"math"
	"strconv"

	"github.com/go-json-experiment/json/jsontext"

	"verifsim/core"
	"verifsim/gen"
	"verifsim/refjson"
)

// EncCall is one WriteToken or WriteValue call.
type EncCall struct {
	Op  byte   `json:"op"`  // 'T' token, 'V' value
	Tok byte   `json:"tok"` // n t f { } [ ] s i u F z(zero token)
	S   string `json:"s,omitempty"`
	I   int64  `json:"i,omitempty"`
	F   int    `json:"f,omitempty"` // index into floatTable
	Val string `json:"val,omitempty"`
	Raw bool   `json:"raw,omitempty"` // string token taken from a Decoder (AllowInvalidUTF8) instead of jsontext.String
}

// rawStringToken yields the string s as a token that still points into a
// Decoder's buffer: the Encoder has to validate and re-encode it exactly as
// it does for jsontext.String(s), although a Decoder "already checked" it.
func rawStringToken(s string) jsontext.Token {
	b := []byte{'"'}
	for i := 0; i < len(s); i++ {
		switch c := s[i]; {
		case c == '"' || c == '\\':
			b = append(b, '\\', c)
		case c < 0x20:
			b = append(b, fmt.Sprintf("\\u%04x", c)...)
		default:
			b = append(b, c)
		}
	}
	b = append(b, '"')
	d := jsontext.NewDecoder(bytes.NewReader(b), jsontext.AllowInvalidUTF8(true))
	tok, err := d.ReadToken()
	if err != nil {
		panic("verifsim: rawStringToken: " + err.Error())
	}
	return tok
}

var floatTable = []struct {
	V   float64
	Lit string
}{
	{0, "0"}, {1, "1"}, {-1, "-1"}, {0.5, "0.5"}, {3.14159, "3.14159"}, {1e6, "1000000"}, {123456789, "123456789"}, {-2.25, "-2.25"},
	{math.NaN(), "NaN"}, {math.Inf(1), "Infinity"}, {math.Inf(-1), "-Infinity"},
}

type EncOpts struct {
	AllowUTF8  bool   `json:"allow_invalid_utf8"`
	AllowDup   bool   `json:"allow_duplicate_names"`
	HTML       bool   `json:"escape_html"`
	JS         bool   `json:"escape_js"`
	SpaceColon int    `json:"space_after_colon"` // 0 unset, 1 false, 2 true
	SpaceComma int    `json:"space_after_comma"`
	Multiline  bool   `json:"multiline"`
	Indent     string `json:"indent"`
	HasIndent  bool   `json:"has_indent"`
	Prefix     string `json:"prefix"`
	HasPrefix  bool   `json:"has_prefix"`
	Preserve   bool   `json:"preserve_raw_strings"`
	CanonInts  bool   `json:"canonicalize_raw_ints"`
	CanonFlts  bool   `json:"canonicalize_raw_floats"`
	Reorder    bool   `json:"reorder_raw_objects"`
}

func (o *EncOpts) options() []jsontext.Options {
	var os []jsontext.Options
	if o.AllowUTF8 {
		os = append(os, jsontext.AllowInvalidUTF8(true))
	}
	if o.AllowDup {
		os = append(os, jsontext.AllowDuplicateNames(true))
	}
	if o.HTML {
		os = append(os, jsontext.EscapeForHTML(true))
	}
	if o.JS {
		os = append(os, jsontext.EscapeForJS(true))
	}
	if o.SpaceColon != 0 {
		os = append(os, jsontext.SpaceAfterColon(o.SpaceColon == 2))
	}
	if o.SpaceComma != 0 {
		os = append(os, jsontext.SpaceAfterComma(o.SpaceComma == 2))
	}
	if o.Multiline {
		os = append(os, jsontext.Multiline(true))
	}
	if o.HasIndent {
		os = append(os, jsontext.WithIndent(o.Indent))
	}
	if o.HasPrefix {
		os = append(os, jsontext.WithIndentPrefix(o.Prefix))
	}
	if o.Preserve {
		os = append(os, jsontext.PreserveRawStrings(true))
	}
	if o.CanonInts {
		os = append(os, jsontext.CanonicalizeRawInts(true))
	}
	if o.CanonFlts {
		os = append(os, jsontext.CanonicalizeRawFloats(true))
	}
	if o.Reorder {
		os = append(os, jsontext.ReorderRawObjects(true))
	}
	return os
}

// fopts derives the reference formatter's options from the documentation of
// the whitespace options (Multiline implies SpaceAfterColon unless given,
// indent "\t" unless given; WithIndent/WithIndentPrefix imply Multiline).
func (o *EncOpts) fopts() refjson.FOpts {
	f := refjson.FOpts{EscapeHTML: o.HTML, EscapeJS: o.JS}
	f.Multiline = o.Multiline || o.HasIndent || o.HasPrefix
	f.SpaceAfterColon = o.SpaceColon == 2 || (o.SpaceColon == 0 && f.Multiline)
	f.SpaceAfterComma = o.SpaceComma == 2
	if f.Multiline {
		f.Indent = "\t"
		if o.HasIndent {
			f.Indent = o.Indent
		}
		f.Prefix = o.Prefix
	}
	return f
}

// modelable reports whether the reference formatter predicts the exact bytes.
func (o *EncOpts) modelable() bool {
	return !o.Preserve && !o.CanonInts && !o.CanonFlts && !o.Reorder
}

func genEncOpts(s *core.Stream, rich bool) EncOpts {
	var o EncOpts
	o.AllowUTF8 = s.Chance(1, 5)
	o.AllowDup = s.Chance(1, 5)
	if !rich {
		return o
	}
	o.HTML = s.Chance(1, 6)
	o.JS = s.Chance(1, 6)
	o.SpaceColon = s.Weighted(4, 1, 1)
	o.SpaceComma = s.Weighted(4, 1, 1)
	switch s.Weighted(4, 1, 1, 1) {
	case 1:
		o.Multiline = true
	case 2:
		o.HasIndent = true
		o.Indent = []string{"\t", "  ", "", " \t ", "    "}[s.Draw(5)]
	case 3:
		o.HasIndent, o.HasPrefix = true, true
		o.Indent = []string{"\t", "  ", ""}[s.Draw(3)]
		o.Prefix = []string{"", " ", "\t\t"}[s.Draw(3)]
	}
	if s.Chance(1, 8) {
		switch s.Draw(4) {
		case 0:
			o.Preserve = true
		case 1:
			o.CanonInts = true
		case 2:
			o.CanonFlts = true
		case 3:
			o.Reorder = true
		}
	}
	return o
}

type EncPlan struct {
	Opts     EncOpts        `json:"opts"`
	Calls    []EncCall      `json:"calls"`
	BytesBuf bool           `json:"bytes_buffer_writer"`
	Write    core.WritePlan `json:"write"`
	PtrEvery int            `json:"ptr_every"`
	Past     int            `json:"encoder_past,omitempty"` // 0 fresh Encoder; else one that was used before (1 bytes.Buffer, 2 plain writer, 3 plain writer that failed) with output still buffered, then Reset
	Deep     int            `json:"deep,omitempty"`         // containers opened by tokens before Calls (deep mode)
	DeepObj  bool           `json:"deep_obj,omitempty"`
	// SweepFaults (c07): additionally place one write fault of every kind at EVERY byte of the output.
	SweepFaults bool `json:"sweep_write_faults,omitempty"`
	// Exhaustive (c06): after the drawn prefix, enumerate every call sequence of this length over a fixed alphabet.
	Exhaustive int `json:"exhaustive_suffix_len,omitempty"`

	outLen int
}

// newEncWithPast returns an Encoder for w: a fresh one, or one whose previous
// use was abandoned half-way (bytes still buffered, or refused by its writer)
// and that was then Reset onto w. Either way w must receive the same bytes.
func newEncWithPast(past int, w io.Writer, opts ...jsontext.Options) *jsontext.Encoder {
	if past == 0 {
		return jsontext.NewEncoder(w, opts...)
	}
	var junk io.Writer = new(bytes.Buffer)
	switch past {
	case 2:
		junk = core.NewSimWriter(core.WritePlan{})
	case 3:
		junk = core.NewSimWriter(core.WritePlan{FaultAt: []core.WriteFault{{Off: 3, Kind: core.WShort}}})
	}
	e := jsontext.NewEncoder(junk, jsontext.AllowDuplicateNames(true))
	if past == 3 {
		e.WriteToken(jsontext.String("a top-level value of which the old writer takes three bytes"))
	}
	e.WriteToken(jsontext.BeginObject)
	e.WriteToken(jsontext.String("left-open"))
	e.WriteToken(jsontext.BeginArray)
	e.WriteValue(jsontext.Value(`{"a":[1,2,3]}`))
	e.Reset(w, opts...)
	return e
}

// Enc is the encoder scenario.
type Enc struct {
	Mode string // c07 (grammatical + write faults), c06 (legal/illegal mix), c16
}

func makeToken(c EncCall) jsontext.Token {
	switch c.Tok {
	case 'n':
		return jsontext.Null
	case 't':
		return jsontext.True
	case 'f':
		return jsontext.False
	case '{':
		return jsontext.BeginObject
	case '}':
		return jsontext.EndObject
	case '[':
		return jsontext.BeginArray
	case ']':
		return jsontext.EndArray
	case 's':
		if c.Raw {
			return rawStringToken(c.S)
		}
		return jsontext.String(c.S)
	case 'i':
		return jsontext.Int(c.I)
	case 'u':
		return jsontext.Uint(uint64(c.I))
	case 'F':
		return jsontext.Float(floatTable[c.F].V)
	}
	return jsontext.Token{}
}

func encDo(e *jsontext.Encoder, c EncCall) error {
	if c.Op == 'V' {
		return e.WriteValue(jsontext.Value(c.Val))
	}
	return e.WriteToken(makeToken(c))
}

// mangle mirrors "each ill-formed byte becomes U+FFFD".
func mangle(s string) (string, bool) {
	r := []rune(s)
	out := string(r)
	return out, out != s
}

// judge decides from the documented grammar whether the call must be
// accepted in model state m. dontCare is set where the statement does not
// determine the verdict.
func judge(m *refjson.Model, o *EncOpts, c EncCall) (accept, dontCare bool, name string, kind byte, toks []refjson.Tok) {
	depth := m.Depth()
	if c.Op == 'T' {
		switch c.Tok {
		case 'n', 't', 'f':
			return m.CanApply(c.Tok, "") == refjson.OK, false, "", c.Tok, nil
		case '{', '[', '}', ']':
			return m.CanApply(c.Tok, "") == refjson.OK, false, "", c.Tok, nil
		case 'i', 'u':
			return m.CanApply('0', "") == refjson.OK, false, "", '0', nil
		case 'F':
			f := floatTable[c.F].V
			if math.IsNaN(f) || math.IsInf(f, 0) {
				// documented: represented as the JSON strings "NaN", "Infinity", "-Infinity"
				s := floatTable[c.F].Lit
				return m.CanApply('"', s) == refjson.OK, false, s, '"', nil
			}
			return m.CanApply('0', "") == refjson.OK, false, "", '0', nil
		case 's':
			s, mangled := mangle(c.S)
			if mangled && !o.AllowUTF8 {
				return false, false, "", '"', nil
			}
			rej := m.CanApply('"', s)
			if rej == refjson.RejDupName && mangled {
				return false, true, s, '"', nil
			}
			return rej == refjson.OK, false, s, '"', nil
		default:
			return false, false, "", 0, nil
		}
	}
	// raw value
	val := []byte(c.Val)
	md := 10000 - depth
	if md <= 0 {
		md = -1
	}
	r := refjson.Scan(val, refjson.Opts{AllowInvalidUTF8: o.AllowUTF8, AllowDuplicateNames: o.AllowDup, MaxDepth: md})
	if r.Status != refjson.Complete || len(r.Values) != 1 {
		return false, r.Ambiguous, "", 0, nil
	}
	if r.Ambiguous {
		return false, true, "", 0, nil
	}
	k := r.Toks[0].Kind
	if k == '"' {
		s, mangled := refjson.Unquote(val[r.Toks[0].Start:r.Toks[0].End])
		rej := m.CanApply('"', s)
		if rej == refjson.RejDupName && mangled {
			return false, true, s, '"', r.Toks
		}
		return rej == refjson.OK, false, s, '"', r.Toks
	}
	kk := k
	if k == '{' || k == '[' {
		// as a whole value: only the name-position rule applies (depth was
		// checked by the scan)
		if m.NeedName() {
			return false, false, "", k, r.Toks
		}
		return true, false, "", k, r.Toks
	}
	return m.CanApply(kk, "") == refjson.OK, false, "", k, r.Toks
}

// ---------------------------------------------------------------------------
// plan generation

func textToCalls(s *core.Stream, text []byte, valueP int) []EncCall {
	r := refjson.Scan(text, refjson.Opts{AllowInvalidUTF8: true, AllowDuplicateNames: true})
	var calls []EncCall
	toks := r.Toks
	for i := 0; i < len(toks); i++ {
		t := toks[i]
		// whole value as raw?
		if s.Chance(valueP, 8) {
			j := i
			if t.Kind == '{' || t.Kind == '[' {
				d := 0
				for ; j < len(toks); j++ {
					switch toks[j].Kind {
					case '{', '[':
						d++
					case '}', ']':
						d--
					}
					if d == 0 {
						break
					}
				}
			}
			if t.Kind != '}' && t.Kind != ']' && j < len(toks) {
				st, en := t.Start, toks[j].End
				// keep some surrounding whitespace in the raw value
				if s.Chance(1, 4) {
					for st > 0 && (text[st-1] == ' ' || text[st-1] == '\n') {
						st--
					}
				}
				calls = append(calls, EncCall{Op: 'V', Val: string(text[st:en])})
				i = j
				continue
			}
		}
		c := EncCall{Op: 'T'}
		switch t.Kind {
		case 'n', 't', 'f', '{', '}', '[', ']':
			c.Tok = t.Kind
		case '"':
			c.Tok = 's'
			c.S, _ = refjson.Unquote(text[t.Start:t.End])
			if s.Chance(1, 16) {
				c.S = rawUnquote(text[t.Start:t.End]) // may keep ill-formed bytes
			}
		case '0':
			lit := string(text[t.Start:t.End])
			if v, err := strconv.ParseInt(lit, 10, 64); err == nil && s.Chance(1, 2) {
				c.Tok, c.I = 'i', v
			} else {
				// keep the literal exactly: as a raw value
				c = EncCall{Op: 'V', Val: lit}
			}
		}
		calls = append(calls, c)
	}
	return calls
}

// rawUnquote strips quotes and resolves only simple content (used to get Go
// strings with ill-formed bytes).
func rawUnquote(lit []byte) string {
	var b []byte
	for i := 1; i < len(lit)-1; i++ {
		if lit[i] == '\\' {
			i++
			if lit[i] == 'u' {
				i += 4
			}
			b = append(b, '?')
			continue
		}
		b = append(b, lit[i])
	}
	return string(b)
}

func (sc *Enc) plan(t *core.Tape, env *Env) *EncPlan {
	p := &EncPlan{}
	ps := t.S("plan")
	p.Opts = genEncOpts(ps, true)
	p.BytesBuf = ps.Chance(1, 4)
	p.Past = ps.Weighted(5, 1, 1, 1)
	switch ps.Weighted(5, 2, 2, 1) {
	case 1:
		p.PtrEvery = 2 + ps.Draw(6)
	case 2:
		p.PtrEvery = 10 + ps.Draw(60)
	case 3:
		p.PtrEvery = -1
	}
	cs := t.S("calls")
	switch sc.Mode {
	case "c07":
		n := 1 + cs.Weighted(5, 3, 2)
		for k := 0; k < n; k++ {
			maxBytes := []int{512, 2048, 8192, 16384}[cs.Weighted(4, 3, 2, 1)]
			if env.Thorough && cs.Chance(1, 8) {
				maxBytes = 262144
			}
			text := gen.Text(cs, gen.JSONCfg{MaxBytes: maxBytes, MaxDepth: 2 + cs.Draw(6), InvalidUTF8: p.Opts.AllowUTF8 && cs.Chance(1, 3), DupNames: p.Opts.AllowDup})
			p.Calls = append(p.Calls, textToCalls(cs, text, 2)...)
		}
		if !p.BytesBuf {
			ws := t.S("writer")
			sc.genWriteFaults(ws, p)
		}
		if cs.Chance(1, 40) {
			// a small program whose fault positions can be swept exhaustively
			text := gen.Text(cs, gen.JSONCfg{MaxBytes: 96 + cs.Draw(160), MaxDepth: 2 + cs.Draw(3), DupNames: p.Opts.AllowDup})
			p.Calls = textToCalls(cs, text, 2)
			p.SweepFaults = true
		}
	default:
		sc.genMixed(cs, p, env)
		if !p.BytesBuf && p.Deep == 0 && cs.Chance(1, 6) {
			// a misbehaving writer underneath: a failed flush must not change which
			// calls are accepted nor any observer
			sc.genWriteFaults(t.S("writer"), p)
		}
		if p.Deep == 0 && len(p.Write.Events)+len(p.Write.FaultAt) == 0 && p.Write.DiskFullAt == 0 && cs.Chance(1, 60) {
			if len(p.Calls) > 6 {
				p.Calls = p.Calls[:cs.Draw(7)]
			}
			p.Exhaustive = 2 + cs.Draw(2)
		}
	}
	return p
}

func (sc *Enc) genWriteFaults(ws *core.Stream, p *EncPlan) {
	switch ws.Weighted(3, 4, 3) {
	case 0:
		return
	case 1:
		k := 1 + ws.Draw(2)
		for i := 0; i < k; i++ {
			sc.addWriteFault(ws, p)
		}
	case 2:
		k := 3 + ws.Draw(9)
		for i := 0; i < k; i++ {
			sc.addWriteFault(ws, p)
		}
	}
}

func (sc *Enc) addWriteFault(ws *core.Stream, p *EncPlan) {
	switch ws.Weighted(4, 4, 1) {
	case 0:
		p.Write.Events = append(p.Write.Events, core.WriteEvt{Call: ws.Draw(24), Kind: 1 + ws.Draw(3), Frac: ws.Draw(256)})
	case 1:
		off := ws.Draw(64)
		if ws.Chance(1, 2) {
			off = gen.Size(ws, 20000)
		}
		p.Write.FaultAt = append(p.Write.FaultAt, core.WriteFault{Off: off, Kind: 1 + ws.Draw(3)})
	case 2:
		if p.Write.DiskFullAt == 0 {
			p.Write.DiskFullAt = 1 + gen.Size(ws, 20000)
		}
	}
}

var nameFamily = []string{"a", "b", "k0", "k1", "", "a/b", "m~n", "ä", "\u2028", "<&>", "long_name_long_name_long_name_long_name_long_name_long_name_long_name_", "a\tb", "q\"q", "back\\slash", "nl\n", "a\\tb"}

// rawName spells a member name as a raw JSON string: canonically, or with every
// character that allows it written as a \uXXXX escape (names are compared after
// unescaping, whatever the spelling).
func rawName(cs *core.Stream, name string) string {
	if cs.Chance(2, 3) {
		return refjson.Quote(name, false, false)
	}
	b := []byte{'"'}
	upper := cs.Bool()
	for _, r := range name {
		if r < 0x80 && (r < 0x20 || r == '"' || r == '\\' || r == '/' || cs.Chance(1, 3)) {
			if upper {
				b = append(b, fmt.Sprintf("\\u%04X", r)...)
			} else {
				b = append(b, fmt.Sprintf("\\u%04x", r)...)
			}
			continue
		}
		b = append(b, string(r)...)
	}
	return string(append(b, '"'))
}

func (sc *Enc) genMixed(cs *core.Stream, p *EncPlan, env *Env) {
	o := &p.Opts
	m := refjson.NewModel(refjson.Opts{AllowInvalidUTF8: o.AllowUTF8, AllowDuplicateNames: o.AllowDup})
	maxCalls := 60
	if env.Thorough {
		maxCalls = 400
	}
	n := 1 + cs.Draw(maxCalls)
	if cs.Chance(1, 40) {
		// deep mode: open 9998..10001 containers by tokens first
		p.Deep = 9998 + cs.Draw(4)
		p.DeepObj = cs.Bool()
		// no multi-line layout 10000 levels deep (each token would carry 10 KB of indentation)
		o.Multiline, o.HasIndent, o.HasPrefix, o.Indent, o.Prefix = false, false, false, "", ""
		n = 1 + cs.Draw(8)
	}
	fresh := 0
	for i := 0; i < n; i++ {
		legal := cs.Chance(7, 10)
		var c EncCall
		if legal {
			c = sc.genLegal(cs, m, o, &fresh)
		} else {
			c = sc.genIllegal(cs, m, o, &fresh)
		}
		p.Calls = append(p.Calls, c)
		// advance the planning model by the documented rule (the executor
		// re-derives everything; this only steers generation)
		if acc, _, name, kind, _ := judge(m, o, c); acc {
			if c.Op == 'V' {
				m.ApplyWholeValue(kind, name)
			} else {
				m.Apply(kind, name)
			}
		}
	}
}

func (sc *Enc) freshName(cs *core.Stream, fresh *int) string {
	if cs.Chance(1, 3) {
		return nameFamily[cs.Draw(len(nameFamily))]
	}
	*fresh++
	s := "n" + strconv.Itoa(*fresh)
	if cs.Chance(1, 10) {
		for k, L := 0, gen.Size(cs, 1200); k < L; k++ {
			s += string(rune('a' + k%26))
		}
	}
	return s
}

func (sc *Enc) smallValue(cs *core.Stream, o *EncOpts, valid bool) string {
	text := gen.Text(cs, gen.JSONCfg{MaxBytes: 32 + cs.Draw(400), MaxDepth: 1 + cs.Draw(4), InvalidUTF8: cs.Chance(1, 6), DupNames: cs.Chance(1, 6), CollideNames: cs.Chance(1, 8)})
	if !valid {
		text = gen.Mutate(cs, text)
	}
	return string(text)
}

func (sc *Enc) genLegal(cs *core.Stream, m *refjson.Model, o *EncOpts, fresh *int) EncCall {
	if m.NeedName() {
		switch cs.Weighted(6, 2, 3) {
		case 0:
			return EncCall{Op: 'T', Tok: 's', S: sc.freshName(cs, fresh), Raw: cs.Chance(1, 5)}
		case 1:
			return EncCall{Op: 'V', Val: rawName(cs, sc.freshName(cs, fresh))}
		default:
			return EncCall{Op: 'T', Tok: '}'}
		}
	}
	switch cs.Weighted(3, 2, 2, 2, 2, 2, 2, 1) {
	case 0:
		return EncCall{Op: 'T', Tok: "ntf"[cs.Draw(3)]}
	case 1:
		return EncCall{Op: 'T', Tok: 's', S: strFamily(cs), Raw: cs.Chance(1, 5)}
	case 2:
		if cs.Bool() {
			return EncCall{Op: 'T', Tok: 'i', I: int64(cs.Draw(2000)) - 1000}
		}
		return EncCall{Op: 'T', Tok: 'F', F: cs.Draw(8)}
	case 3:
		return EncCall{Op: 'T', Tok: '{'}
	case 4:
		return EncCall{Op: 'T', Tok: '['}
	case 5:
		if m.Depth() > 0 {
			k, _ := m.Index(m.Depth())
			if k == '{' {
				return EncCall{Op: 'T', Tok: '}'}
			}
			return EncCall{Op: 'T', Tok: ']'}
		}
		return EncCall{Op: 'T', Tok: 'n'}
	case 6:
		return EncCall{Op: 'V', Val: sc.smallValue(cs, o, true)}
	default:
		return EncCall{Op: 'T', Tok: 'u', I: int64(cs.Draw(1 << 30))}
	}
}

func strFamily(cs *core.Stream) string {
	switch cs.Weighted(4, 2, 2, 1, 1) {
	case 0:
		return []string{"", "x", "hello", "a\"b", "tab\t", "nl\n", "\\", "é", "日本", "😀", "\u2028", "<b>&", "\x00\x1f"}[cs.Draw(13)]
	case 1:
		n := gen.Size(cs, 5000)
		b := make([]byte, n)
		for i := range b {
			b[i] = byte('a' + i%26)
		}
		return string(b)
	case 2:
		n := gen.Size(cs, 600)
		var b []byte
		for i := 0; i < n; i++ {
			b = append(b, []string{"a", "\"", "\n", "é", "😀", "\x01"}[cs.Draw(6)]...)
		}
		return string(b)
	case 3:
		return []string{"\xff", "a\xc0\x80", "\xe2\x82", "ok\x80ok", "\xed\xa0\x80"}[cs.Draw(5)]
	default:
		return "plain"
	}
}

func (sc *Enc) genIllegal(cs *core.Stream, m *refjson.Model, o *EncOpts, fresh *int) EncCall {
	switch cs.Weighted(2, 2, 2, 2, 1, 1, 3, 1) {
	case 0: // wrong or premature end
		return EncCall{Op: 'T', Tok: "}]"[cs.Draw(2)]}
	case 1: // non-string (maybe at a name position)
		return EncCall{Op: 'T', Tok: "ntfi{["[cs.Draw(6)], I: 7}
	case 2: // repeated name
		return EncCall{Op: 'T', Tok: 's', S: nameFamily[cs.Draw(len(nameFamily))], Raw: cs.Chance(1, 5)}
	case 3: // ill-formed string
		return EncCall{Op: 'T', Tok: 's', S: []string{"\xff", "a\xc0\x80", "\xe2\x82", "ok\x80ok", "\xed\xa0\x80"}[cs.Draw(5)], Raw: cs.Chance(1, 3)}
	case 4: // non-finite float
		return EncCall{Op: 'T', Tok: 'F', F: 8 + cs.Draw(3)}
	case 5: // zero token
		return EncCall{Op: 'T', Tok: 'z'}
	case 6: // malformed raw value
		if cs.Chance(1, 4) {
			return EncCall{Op: 'V', Val: []string{"", " ", "nul", "tru", "[", "{", "{\"a\":1,\"a\":2}", "\"\\ud800\"", "1 2", "[1,]", "{\"a\"}", "\"\xff\"", "01", "-", "1e", "\"abc", "[]]", "{}x", ",", ":"}[cs.Draw(20)]}
		}
		return EncCall{Op: 'V', Val: sc.smallValue(cs, o, false)}
	default: // raw repeated name
		return EncCall{Op: 'V', Val: rawName(cs, nameFamily[cs.Draw(len(nameFamily))])}
	}
}

// ---------------------------------------------------------------------------
// execution

type encStep struct {
	Acc bool
	Err errClass
	Obs obs
}

func (sc *Enc) Run(t *core.Tape, env *Env) (any, []core.Violation) {
	p := sc.plan(t, env)
	var viols []core.Violation
	report := func(prop, class, site, f string, a ...any) bool {
		v := core.Violationf(prop, class, site, f, a...)
		viols = append(viols, v)
		return v.Property == env.Prop && !env.Known[v.Key()]
	}
	switch sc.Mode {
	case "c07":
		sc.runFaulty(p, env, report)
		if p.SweepFaults && len(viols) == 0 {
			// exhaustive over the position of one write fault: disk full at every
			// byte k, a short write at every byte k, an error-after-full-write and
			// a zero-progress error at every byte k of the output
			n := p.outLen
			execs := 0
			for k := 0; k <= n+1 && len(viols) == 0; k++ {
				for kind := 0; kind < 4 && len(viols) == 0; kind++ {
					q := *p
					q.SweepFaults = false
					q.BytesBuf = false
					switch kind {
					case 0:
						q.Write = core.WritePlan{DiskFullAt: k + 1}
					default:
						q.Write = core.WritePlan{FaultAt: []core.WriteFault{{Off: k, Kind: kind}}}
					}
					sc.runFaulty(&q, env, report)
					execs++
				}
			}
			if len(viols) > 0 {
				viols[len(viols)-1].Detail += " [found by the exhaustive write-fault sweep]"
			}
			env.Stats.ProbeN("enc/exhaustive-write-fault-sweep-executions", execs)
			env.Stats.Probe("enc/exhaustive-write-fault-sweep-programs")
		}
	default:
		if p.Exhaustive > 0 {
			sc.runExhaustive(p, env, report)
		} else {
			sc.runMixed(p, env, report)
		}
	}
	return p, viols
}

// exhaustAlphabet is the call alphabet of the bounded-exhaustive mode.
var exhaustAlphabet = []EncCall{
	{Op: 'T', Tok: '{'}, {Op: 'T', Tok: '}'}, {Op: 'T', Tok: '['}, {Op: 'T', Tok: ']'},
	{Op: 'T', Tok: 's', S: "a"}, {Op: 'T', Tok: 's', S: "b"}, {Op: 'T', Tok: 'n'}, {Op: 'T', Tok: 'i', I: 7},
	{Op: 'T', Tok: 's', S: "\xff"}, {Op: 'T', Tok: 'z'},
	{Op: 'V', Val: `"a"`}, {Op: 'V', Val: `{"a":1,"a":2}`}, {Op: 'V', Val: `[1,{"b":null}]`}, {Op: 'V', Val: `tru`}, {Op: 'V', Val: ` 1 `},
}

// runExhaustive enumerates EVERY call sequence of the given length over the
// alphabet (after a drawn prefix) and checks each with the mixed-mode oracles.
func (sc *Enc) runExhaustive(p *EncPlan, env *Env, report reportFn) {
	L := p.Exhaustive
	idx := make([]int, L)
	prefix := p.Calls
	n := 0
	for {
		q := *p
		q.Exhaustive = 0
		q.Calls = append(append([]EncCall(nil), prefix...), make([]EncCall, L)...)
		for i, k := range idx {
			q.Calls[len(prefix)+i] = exhaustAlphabet[k]
		}
		before := env.Stats.Nontrivial
		sc.runMixed(&q, env, report)
		env.Stats.Nontrivial = env.Stats.Nontrivial || before
		n++
		// next sequence
		i := L - 1
		for ; i >= 0; i-- {
			idx[i]++
			if idx[i] < len(exhaustAlphabet) {
				break
			}
			idx[i] = 0
		}
		if i < 0 {
			break
		}
	}
	env.Stats.ProbeN("enc/exhaustive-sequences-checked", n)
	env.Stats.Probe(fmt.Sprintf("enc/exhaustive-runs/length-%d", L))
}

type reportFn func(prop, class, site, f string, a ...any) bool

func wantPtrAt(every, i, n int) bool {
	switch {
	case every == 0:
		return true
	case every < 0:
		return i == n-1
	}
	return i%every == every-1 || i == n-1
}

func callSite(c EncCall) string {
	if c.Op == 'V' {
		return "WriteValue"
	}
	return "WriteToken/" + string(c.Tok)
}

// runFaulty: C07 token level. All calls are grammatical; the writer misbehaves.
func (sc *Enc) runFaulty(p *EncPlan, env *Env, report reportFn) {
	st := env.Stats
	opts := p.Opts.options()
	// fault-free twin into a bytes.Buffer
	var tb bytes.Buffer
	te := jsontext.NewEncoder(&tb, opts...)
	twin := make([]encStep, len(p.Calls))
	nacc := 0
	for i, c := range p.Calls {
		err := encDo(te, c)
		twin[i] = encStep{Acc: err == nil, Err: classify(err), Obs: observe(te, te.OutputOffset(), true)}
		if err == nil {
			nacc++
		}
	}
	closeAll := func(e *jsontext.Encoder) {
		for e.StackDepth() > 0 {
			k, n := e.StackIndex(e.StackDepth())
			var err error
			if k == '{' {
				if n%2 == 1 {
					e.WriteToken(jsontext.Null)
				}
				err = e.WriteToken(jsontext.EndObject)
			} else {
				err = e.WriteToken(jsontext.EndArray)
			}
			if err != nil {
				break
			}
		}
		e.WriteToken(jsontext.String("~END~"))
	}
	closeAll(te)
	F := append([]byte(nil), tb.Bytes()...)
	p.outLen = len(F)

	var w io.Writer
	var sw *core.SimWriter
	var bb *bytes.Buffer
	if p.BytesBuf {
		bb = &bytes.Buffer{}
		w = bb
	} else {
		sw = core.NewSimWriter(p.Write)
		w = sw
	}
	delivered := func() []byte {
		if bb != nil {
			return bb.Bytes()
		}
		return sw.Got
	}
	e := newEncWithPast(p.Past, w, opts...)
	for i, c := range p.Calls {
		err := encDo(e, c)
		st.Steps++
		ec := classify(err)
		withPtr := wantPtrAt(p.PtrEvery, i, len(p.Calls))
		got := observe(e, e.OutputOffset(), withPtr)
		want := twin[i].Obs
		if !withPtr {
			want.Ptr = ""
		}
		if ec.Kind == "injected" {
			st.Nontrivial = true
			if !twin[i].Acc {
				// twin rejected this call; with a fault it may fail either way
				continue
			}
			// the token was accepted nevertheless
			if !got.equal(want) {
				if got.Off != want.Off {
					report("C16", "C16/encoder-observer/offset-after-write-fault", callSite(c), "call %d (write fault): OutputOffset=%d, fault-free %d", i, got.Off, want.Off)
				}
				if report("C07", "C07/fault-token-not-accepted", callSite(c), "call %d failed with the injected write error; observers %v, fault-free %v", i, got, want) {
					return
				}
			}
		} else {
			if ec != twin[i].Err {
				if report("C07", "C07/result-differs-from-fault-free", callSite(c), "call %d: %v, fault-free %v", i, ec, twin[i].Err) {
					return
				}
			}
			if !got.equal(want) {
				cls := "C07/observers-differ-from-fault-free"
				if got.Off != want.Off {
					cls = "C07/output-offset-differs-from-fault-free"
					report("C16", "C16/encoder-observer/offset-after-write-fault", callSite(c), "call %d: OutputOffset=%d, fault-free %d", i, got.Off, want.Off)
				}
				if report("C07", cls, callSite(c), "call %d: %v, fault-free %v", i, got, want) {
					return
				}
			}
		}
		d := delivered()
		if len(d) > len(F) || !bytes.Equal(d, F[:len(d)]) {
			if report("C07", "C07/delivered-not-prefix", callSite(c), "after call %d the writer holds %d bytes that are not a prefix of the fault-free output: ...%s vs ...%s", i, len(d), clip(tailOf(d, 60), 60), clip(tailOf(F[:min(len(F), len(d))], 60), 60)) {
				return
			}
		}
	}
	if sw != nil {
		sw.Off = true
	}
	closeAll(e)
	d := delivered()
	if !bytes.Equal(d, F) {
		i := 0
		for i < len(d) && i < len(F) && d[i] == F[i] {
			i++
		}
		if report("C07", "C07/final-output-differs", writerKind(p), "after draining, writer holds %d bytes, fault-free output has %d; first difference at %d: got ...%s want ...%s", len(d), len(F), i, clip(d[max(0, i-20):min(len(d), i+40)], 60), clip(F[max(0, i-20):min(len(F), i+40)], 60)) {
			return
		}
	}
	if sw != nil {
		st.Fault("write/short", sw.NShort)
		st.Fault("write/error-after-full-write", sw.NErrAfter)
		st.Fault("write/zero-progress-error", sw.NReject)
		st.Fault("write/disk-full", sw.NDiskFull)
		st.ProbeN("enc/write-calls", sw.Calls)
		st.SigAdd(uint64(sw.NShort), uint64(sw.NErrAfter), uint64(sw.NReject), uint64(sw.NDiskFull), uint64(bitsLen(sw.MaxWrite)))
		if sw.Faults() > 0 {
			st.Nontrivial = true
		}
	} else {
		st.Probe("enc/bytes-buffer-writer")
		st.Nontrivial = true
	}
	st.SigAdd(0xe7, uint64(bitsLen(len(F))), uint64(len(p.Calls)), hashBytes([]byte(fmt.Sprint(p.Opts))))
}

func writerKind(p *EncPlan) string {
	if p.BytesBuf {
		return "bytes.Buffer"
	}
	return "plain-writer"
}

func tailOf(b []byte, n int) []byte {
	if len(b) <= n {
		return b
	}
	return b[len(b)-n:]
}

// runMixed: C06 / C16-encoder. Legal and illegal calls against the rule model.
func (sc *Enc) runMixed(p *EncPlan, env *Env, report reportFn) {
	st := env.Stats
	o := &p.Opts
	opts := o.options()
	var w1 io.Writer
	var bb1 *bytes.Buffer
	var sw1 *core.SimWriter
	if p.BytesBuf {
		bb1 = &bytes.Buffer{}
		w1 = bb1
	} else {
		sw1 = core.NewSimWriter(p.Write)
		w1 = sw1
	}
	faulty := sw1 != nil && (len(p.Write.Events)+len(p.Write.FaultAt) > 0 || p.Write.DiskFullAt > 0)
	delivered := func() []byte {
		if bb1 != nil {
			return bb1.Bytes()
		}
		return sw1.Got
	}
	e := newEncWithPast(p.Past, w1, opts...)
	m := refjson.NewModel(refjson.Opts{AllowInvalidUTF8: o.AllowUTF8, AllowDuplicateNames: o.AllowDup})
	fm := refjson.NewFormatter(o.fopts())
	modelable := o.modelable()
	// deep prefix
	for i := 0; i < p.Deep; i++ {
		c := EncCall{Op: 'T', Tok: '['}
		if p.DeepObj {
			if i%2 == 1 {
				c = EncCall{Op: 'T', Tok: '{'}
			}
		}
		if m.NeedName() {
			nm := EncCall{Op: 'T', Tok: 's', S: "d"}
			if err := encDo(e, nm); err != nil {
				report("C06", "C06/accept-mismatch/rejected-legal", "deep-prefix", "name at depth %d rejected: %v", i, classify(err))
				return
			}
			m.Apply('"', "d")
			fm.Write(refjson.FTok{Kind: '"', Str: "d"}, true)
		}
		acc, _, _, kind, _ := judge(m, o, c)
		err := encDo(e, c)
		if (err == nil) != acc {
			cls := "C06/accept-mismatch/rejected-legal"
			prop := "C06"
			if err == nil {
				cls = "C06/accept-mismatch/accepted-illegal"
			}
			if report(prop, cls, "deep-prefix", "opening container %d: err=%v model accept=%v", i+1, classify(err), acc) {
				return
			}
		}
		if err == nil {
			m.Apply(kind, "")
			fm.Write(refjson.FTok{Kind: kind}, true)
		}
		st.Steps++
	}
	if p.Deep > 0 {
		st.Probe("enc/deep-mode")
	}
	var accepted []int
	steps := make([]encStep, len(p.Calls))
	nrej := 0
	for i, c := range p.Calls {
		acc, dontCare, name, kind, toks := judge(m, o, c)
		before := observe(e, e.OutputOffset(), false)
		err := encDo(e, c)
		st.Steps++
		ec := classify(err)
		if ec.Kind == "injected" {
			// the flush failed; the call itself was accepted
			err = nil
			ec = errClass{}
			st.Nontrivial = true
		}
		if ec.Kind != "" && ec.Kind != "syntactic" {
			if report("C06", "C06/rejection-error-type", callSite(c), "call %d rejected with %v", i, ec) {
				return
			}
		}
		if dontCare {
			acc = err == nil
			st.Probe("enc/dont-care-verdict")
			if acc && c.Op == 'V' && toks == nil {
				// cannot follow an ambiguous raw value in the model: stop here
				return
			}
		}
		if (err == nil) != acc {
			cls := "C06/accept-mismatch/rejected-legal"
			if err == nil {
				cls = "C06/accept-mismatch/accepted-illegal"
			}
			if report("C06", cls, callSite(c), "call %d %s: library err=%v, grammar says accept=%v (depth %d, needName=%v) call=%s", i, callSite(c), ec, acc, m.Depth(), m.NeedName(), clip([]byte(fmt.Sprintf("%+v", c)), 200)) {
				return
			}
			// follow the library so that the rest of the run stays meaningful
			acc = err == nil
			if acc && c.Op == 'V' && toks == nil {
				return
			}
		}
		if acc {
			accepted = append(accepted, i)
			if c.Op == 'V' {
				m.ApplyWholeValue(kind, name)
				fm.WriteText([]byte(c.Val), toks, true)
			} else {
				m.Apply(kind, name)
				ft := refjson.FTok{Kind: kind, Str: name}
				switch c.Tok {
				case 's':
					ft.Str, _ = mangle(c.S)
				case 'i':
					ft.Lit = strconv.FormatInt(c.I, 10)
				case 'u':
					ft.Lit = strconv.FormatUint(uint64(c.I), 10)
				case 'F':
					ft.Lit = floatTable[c.F].Lit
					if kind == '"' {
						ft.Str = floatTable[c.F].Lit
					}
				}
				fm.Write(ft, true)
			}
		} else {
			nrej++
			st.Nontrivial = true
			// a rejected call has no effect
			after := observe(e, e.OutputOffset(), false)
			if !before.equal(after) {
				if report("C06", "C06/rejected-call-changed-state", callSite(c), "call %d was rejected but observers moved: before %v after %v", i, before, after) {
					return
				}
			}
		}
		withPtr := wantPtrAt(p.PtrEvery, i, len(p.Calls))
		got := observe(e, e.OutputOffset(), withPtr)
		steps[i] = encStep{Acc: err == nil, Err: ec, Obs: got}
		// observers vs the rule model (C16 on the encoder side)
		if got.Depth != m.Depth() {
			if report("C16", "C16/encoder-observer/depth", callSite(c), "call %d: StackDepth=%d model %d", i, got.Depth, m.Depth()) {
				return
			}
		} else {
			for k, l := range idxLevels(m.Depth()) {
				kk, n := m.Index(l)
				if k < len(got.Idx) && (got.Idx[k].K != kk || got.Idx[k].N != n) {
					if report("C16", "C16/encoder-observer/index", callSite(c), "call %d: StackIndex(%d)=(%q,%d) model (%q,%d)", i, l, got.Idx[k].K, got.Idx[k].N, kk, n) {
						return
					}
					break
				}
			}
			if withPtr && m.Depth() <= 64 {
				if ptr := m.Pointer(); got.Ptr != ptr {
					if report("C16", "C16/encoder-observer/pointer", callSite(c), "call %d: StackPointer=%q model %q", i, got.Ptr, ptr) {
						return
					}
				}
			}
		}
		if modelable && got.Off != int64(fm.Len()) {
			if report("C16", "C16/encoder-observer/offset", callSite(c), "call %d: OutputOffset=%d, reference serialization has %d bytes", i, got.Off, fm.Len()) {
				return
			}
		}
		// bytes delivered whenever depth returns to zero
		if m.Depth() == 0 && modelable {
			d := delivered()
			if faulty {
				// while the writer misbehaves only "a prefix" can be demanded
				if len(d) > len(fm.Out) || !bytes.Equal(d, fm.Out[:len(d)]) {
					if report("C06", "C06/bytes-at-depth-zero", callSite(c)+"/faulty-writer", "after call %d: the %d delivered bytes are not a prefix of the reference serialization", i, len(d)) {
						return
					}
				}
			} else if !bytes.Equal(d, fm.Out) {
				k := 0
				for k < len(d) && k < len(fm.Out) && d[k] == fm.Out[k] {
					k++
				}
				if report("C06", "C06/bytes-at-depth-zero", callSite(c), "after call %d: delivered %d bytes, reference %d; first difference at %d: got %s want %s", i, len(d), len(fm.Out), k, clip(d[max(0, k-20):min(len(d), k+40)], 60), clip(fm.Out[max(0, k-20):min(len(fm.Out), k+40)], 60)) {
					return
				}
			}
		}
	}
	if faulty {
		// faults stop; close everything and push a sentinel through so that
		// whatever a failed flush left in the buffer is delivered: nothing may
		// be lost or duplicated
		sw1.Off = true
		for e.StackDepth() > 0 {
			k, n := e.StackIndex(e.StackDepth())
			if k == '{' && n%2 == 1 {
				if e.WriteToken(jsontext.Null) != nil {
					break
				}
				m.Apply('n', "")
				fm.Write(refjson.FTok{Kind: 'n'}, true)
			}
			ck := byte(']')
			if k == '{' {
				ck = '}'
			}
			if encDo(e, EncCall{Op: 'T', Tok: ck}) != nil {
				break
			}
			m.Apply(ck, "")
			fm.Write(refjson.FTok{Kind: ck}, true)
		}
		e.WriteToken(jsontext.String("~END~"))
		fm.Write(refjson.FTok{Kind: '"', Str: "~END~"}, true)
		if modelable && !bytes.Equal(delivered(), fm.Out) {
			d := delivered()
			k := 0
			for k < len(d) && k < len(fm.Out) && d[k] == fm.Out[k] {
				k++
			}
			if report("C06", "C06/bytes-after-write-faults", "plain-writer", "after the faults stopped and everything was closed the writer holds %d bytes, the reference serialization of the accepted calls has %d; first difference at %d: got %s want %s", len(d), len(fm.Out), k, clip(d[max(0, k-20):min(len(d), k+40)], 60), clip(fm.Out[max(0, k-20):min(len(fm.Out), k+40)], 60)) {
				return
			}
		}
		st.Fault("write/short", sw1.NShort)
		st.Fault("write/error-after-full-write", sw1.NErrAfter)
		st.Fault("write/zero-progress-error", sw1.NReject)
		st.Fault("write/disk-full", sw1.NDiskFull)
	}
	// twin: only the accepted calls, on a fresh encoder
	if nrej > 0 && p.Deep == 0 {
		var tb bytes.Buffer
		te := jsontext.NewEncoder(&tb, opts...)
		for _, i := range accepted {
			err := encDo(te, p.Calls[i])
			if err != nil {
				if report("C06", "C06/twin-without-rejected-calls/diverged", callSite(p.Calls[i]), "call %d succeeded within the full sequence but fails (%v) when the rejected calls are left out", i, classify(err)) {
					return
				}
				break
			}
			withPtr := wantPtrAt(p.PtrEvery, i, len(p.Calls))
			to := observe(te, te.OutputOffset(), withPtr)
			if !to.equal(steps[i].Obs) {
				if report("C06", "C06/twin-without-rejected-calls/observers", callSite(p.Calls[i]), "call %d: with rejected calls %v, without %v", i, steps[i].Obs, to) {
					return
				}
				break
			}
		}
		// compare bytes after closing everything on both
		closeEnc(e)
		closeEnc(te)
		if faulty {
			te.WriteToken(jsontext.String("~END~")) // e already got its sentinel above
		}
		if !bytes.Equal(delivered(), tb.Bytes()) {
			if report("C06", "C06/twin-without-rejected-calls/bytes", writerKind(p), "final bytes differ: with rejected calls %s, without %s", clip(delivered(), 120), clip(tb.Bytes(), 120)) {
				return
			}
		}
		st.Probe("enc/twin-without-rejected-checked")
	}
	st.ProbeN("enc/rejected-calls", nrej)
	st.ProbeN("enc/accepted-calls", len(accepted))
	st.SigAdd(0xc6, uint64(len(p.Calls)), uint64(nrej), uint64(m.Depth()), hashBytes([]byte(fmt.Sprint(p.Opts))))
	for i := 0; i+1 < len(p.Calls) && i < 30; i++ {
		st.SigAdd(uint64(p.Calls[i].Op)<<24 | uint64(p.Calls[i].Tok)<<16 | uint64(p.Calls[i+1].Op)<<8 | uint64(p.Calls[i+1].Tok))
	}
}

func closeEnc(e *jsontext.Encoder) {
	for e.StackDepth() > 0 {
		k, n := e.StackIndex(e.StackDepth())
		var err error
		if k == '{' {
			if n%2 == 1 {
				e.WriteToken(jsontext.Null)
			}
			err = e.WriteToken(jsontext.EndObject)
		} else {
			err = e.WriteToken(jsontext.EndArray)
		}
		if err != nil {
			return
		}
	}
}
