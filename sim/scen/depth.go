package scen

import (
	"bytes"
	"fmt"
	"io"
	"os"
	"os/exec"
	"strings"

	json "github.com/go-json-experiment/json"
	"github.com/go-json-experiment/json/jsontext"
	jsonv1 "github.com/go-json-experiment/json/v1"

	"verifsim/core"
	"verifsim/peers"
)

// Depth is the C20 boundary scenario: nesting of exactly 10000 is accepted
// and 10001 refused with an error on every path; cyclic Go values yield an
// error; nothing panics or fails to terminate.
type Depth struct{}

type DepthPlan struct {
	Path       string        `json:"path"`
	Depth      int           `json:"depth"`
	Mix        int           `json:"mix"`  // 0 arrays, 1 objects, 2 alternating
	Leaf       string        `json:"leaf"` // "", scalar, empty array/object ...
	Split      int           `json:"split"`
	Read       core.ReadPlan `json:"read"`
	Cyclic     string        `json:"cyclic,omitempty"`
	GoLeaf     int           `json:"go_leaf,omitempty"` // 1-based index into goLeaves for the Marshal paths; 0: derived from Leaf
	GoLeafName string        `json:"go_leaf_name,omitempty"`
}

// goLeaves are innermost Go values for the marshal-side depth paths: every
// shape for which the library has (or could grow) a shortcut that writes an
// empty container without going through the generic container code.
var goLeaves = []struct {
	name  string
	v     any
	extra int // levels the leaf itself adds
}{
	{"nil", nil, 0}, {"int", 1, 0}, {"[]int{}", []int{}, 1}, {"map[string]int{}", map[string]int{}, 1},
	{"struct{}", struct{}{}, 1}, {"*struct{}", &struct{}{}, 1},
	{"struct-dash-only", struct {
		A int `json:"-"`
	}{}, 1}, {"[0]int", [0]int{}, 1}, {"Value{}", jsontext.Value(`{}`), 1}, {"Value[]", jsontext.Value(`[]`), 1},
	{"Value[ ]", jsontext.Value(` [ ] `), 1}, {"struct-all-omitted", struct {
		A []int `json:",omitempty"`
	}{}, 1}, {"nil-slice", []int(nil), 1}, {"nil-map", map[string]int(nil), 1},
	{"*[]int", &[]int{}, 1}, {"[]any{}", []any{}, 1}, {"map[string]any{}", map[string]any{}, 1},
	{"[1]struct{}", [1]struct{}{}, 2}, {"[]any{map{}}", []any{map[string]any{}}, 2}, {"[]struct{}{{}}", []struct{}{{}}, 2},
	{"map-of-empty-struct", map[string]struct{}{"k": {}}, 2}, {"*int", new(int), 0}, {"string", "", 0},
}

var depthPaths = []string{"ReadToken", "ReadValue", "SkipValue", "split-ReadValue", "split-SkipValue", "IsValid", "Format", "Compact", "Indent", "Canonicalize", "WriteToken", "WriteValue", "split-WriteValue",
	"Marshal-anyslice", "Marshal-anymap", "Marshal-ptrchain", "Marshal-recslice", "Marshal-recmap", "MarshalWrite-anyslice", "MarshalEncode-at-depth", "Unmarshal-any", "Unmarshal-linked", "UnmarshalRead-any", "Marshal-cyclic", "Marshal-reenter", "Unmarshal-into-self-referential-interface"}

// recursive Go types for deep values
type recSlice []recSlice
type recMap map[string]recMap
type ptrNode struct {
	Next *ptrNode `json:"n,omitempty"`
	Leaf any      `json:"l,omitempty"`
}
type linkedT struct {
	A *linkedT  `json:"a"`
	L []linkedT `json:"l"`
}
type ptrP *ptrP
type ptrA *ptrB
type ptrB *ptrA
type ptrQ **ptrQ

func (sc *Depth) plan(t *core.Tape) *DepthPlan {
	s := t.S("plan")
	p := &DepthPlan{}
	p.Path = depthPaths[s.Draw(len(depthPaths))]
	p.Depth = 9998 + s.Draw(5)
	p.Mix = s.Draw(3)
	p.Leaf = []string{"", "1", `""`, "{}", "[]", "null", `[{}]`, `{"a":[]}`}[s.Draw(8)]
	p.Split = []int{1, 2, 5000, 9997, 9998, 9999, 10000}[s.Draw(7)]
	rs := t.S("reader")
	switch rs.Draw(4) {
	case 1:
		p.Read.MaxChunk = 1 + rs.Draw(64)
	case 2:
		p.Read.Cuts = []int{rs.Draw(60000), rs.Draw(60000)}
	case 3:
		p.Read.MaxChunk = 1
	}
	if gs := t.S("go-leaf"); gs.Chance(2, 3) {
		p.GoLeaf = 1 + gs.Draw(len(goLeaves))
		p.GoLeafName = goLeaves[p.GoLeaf-1].name
	}
	p.Cyclic = []string{"pointer-self", "map-self", "slice-self", "interface-pointer", "pointer-to-pointer", "struct-ring", "deep-then-cycle", "two-pointer-types", "double-pointer", "interface-in-struct-pointer"}[s.Draw(10)]
	return p
}

// towerText builds the text and returns its maximum nesting.
func (p *DepthPlan) towerText() ([]byte, int) {
	var b []byte
	kinds := make([]bool, p.Depth)
	for i := 0; i < p.Depth; i++ {
		obj := p.Mix == 1 || (p.Mix == 2 && i%2 == 1)
		kinds[i] = obj
		if obj {
			b = append(b, `{"a":`...)
		} else {
			b = append(b, '[')
		}
	}
	nest := p.Depth
	leaf := p.Leaf
	if leaf == "" {
		if kinds[p.Depth-1] {
			b = b[:len(b)-len(`"a":`)]
		}
	} else {
		b = append(b, leaf...)
		switch leaf {
		case "{}", "[]":
			nest++
		case `[{}]`, `{"a":[]}`:
			nest += 2
		}
	}
	for i := p.Depth - 1; i >= 0; i-- {
		if kinds[i] {
			b = append(b, '}')
		} else {
			b = append(b, ']')
		}
	}
	return b, nest
}

func (sc *Depth) Run(t *core.Tape, env *Env) (any, []core.Violation) {
	p := sc.plan(t)
	st := env.Stats
	var viols []core.Violation
	report := func(prop, class, site, f string, a ...any) bool {
		v := core.Violationf(prop, class, site, f, a...)
		viols = append(viols, v)
		return v.Property == env.Prop && !env.Known[v.Key()]
	}
	peers.Cur = &peers.Env{Beh: map[int]peers.Behaviour{}}
	defer func() { peers.Cur = &peers.Env{} }()
	text, nest := p.towerText()
	wantOK := nest <= 10000
	verdict := func(path string, err error) {
		st.Steps++
		st.Probe(fmt.Sprintf("c20/%s/nest-%d", path, min(max(nest, 9998), 10004)))
		if (err == nil) != wantOK {
			what := "refused"
			if err == nil {
				what = "accepted"
			}
			report("C20", "C20/depth-limit/"+what, path, "nesting %d was %s on path %s (depth %d mix %d leaf %q); err=%v", nest, what, path, p.Depth, p.Mix, p.Leaf, classify(err))
		}
	}
	guard := func(path string, f func() error) {
		err, panicked, lib, pv := guarded(f)
		if panicked && lib {
			report("C20", "C20/panic", path, "panic on path %s: %v", path, pv)
			return
		}
		verdict(path, err)
	}
	newDec := func() (*jsontext.Decoder, *core.SimReader) {
		sim := core.NewSimReader(text, p.Read)
		return jsontext.NewDecoder(sim), sim
	}
	loopDec := func(d *jsontext.Decoder, op byte) error {
		for i := 0; i < 60000; i++ {
			var err error
			switch op {
			case 'T':
				_, err = d.ReadToken()
			case 'V':
				_, err = d.ReadValue()
			case 'S':
				err = d.SkipValue()
			}
			if err == io.EOF {
				return nil
			}
			if err != nil {
				return err
			}
		}
		return fmt.Errorf("verifsim: no EOF after 60000 calls")
	}
	switch p.Path {
	case "ReadToken", "ReadValue", "SkipValue":
		d, sim := newDec()
		guard(p.Path, func() error {
			return loopDec(d, map[string]byte{"ReadToken": 'T', "ReadValue": 'V', "SkipValue": 'S'}[p.Path])
		})
		st.Fault("read/short", sim.NShort)
	case "split-ReadValue", "split-SkipValue":
		d, _ := newDec()
		guard(p.Path, func() error {
			for i := 0; i < p.Split && i < p.Depth-1; i++ {
				if _, err := d.ReadToken(); err != nil {
					return err
				}
				if k, n := d.StackIndex(d.StackDepth()); k == '{' && n == 0 {
					if _, err := d.ReadToken(); err != nil { // the name
						return err
					}
				}
			}
			op := byte('V')
			if p.Path == "split-SkipValue" {
				op = 'S'
			}
			if op == 'V' {
				if _, err := d.ReadValue(); err != nil {
					return err
				}
			} else if err := d.SkipValue(); err != nil {
				return err
			}
			return loopDec(d, 'T')
		})
	case "IsValid":
		guard(p.Path, func() error {
			if !jsontext.Value(text).IsValid() {
				return fmt.Errorf("invalid")
			}
			return nil
		})
	case "Format", "Compact", "Indent", "Canonicalize":
		guard(p.Path, func() error {
			v := jsontext.Value(append([]byte(nil), text...))
			switch p.Path {
			case "Format":
				return v.Format()
			case "Compact":
				return v.Compact()
			case "Indent":
				return v.Indent(jsontext.WithIndent(""))
			default:
				return v.Canonicalize()
			}
		})
	case "WriteToken":
		guard(p.Path, func() error {
			e := jsontext.NewEncoder(io.Discard)
			if err := writeTower(e, p); err != nil {
				return err
			}
			closeEnc(e)
			if e.StackDepth() != 0 {
				return fmt.Errorf("verifsim: could not close the tower")
			}
			return nil
		})
	case "WriteValue":
		guard(p.Path, func() error { return jsontext.NewEncoder(io.Discard).WriteValue(text) })
	case "split-WriteValue":
		guard(p.Path, func() error {
			e := jsontext.NewEncoder(io.Discard)
			k := min(p.Split, p.Depth)
			// open k containers by tokens, then the rest as one raw value
			rest := *p
			rest.Depth = p.Depth - k
			for i := 0; i < k; i++ {
				obj := p.Mix == 1 || (p.Mix == 2 && i%2 == 1)
				if obj {
					if err := e.WriteToken(jsontext.BeginObject); err != nil {
						return err
					}
					if err := e.WriteToken(jsontext.String("a")); err != nil {
						return err
					}
				} else if err := e.WriteToken(jsontext.BeginArray); err != nil {
					return err
				}
			}
			if rest.Depth == 0 {
				if p.Leaf == "" {
					return nil
				}
				return e.WriteValue(jsontext.Value(p.Leaf))
			}
			if p.Mix == 2 && k%2 == 1 {
				// keep the alternation going: the remainder starts with an object
				var b []byte
				for i := k; i < p.Depth; i++ {
					if i%2 == 1 {
						b = append(b, `{"a":`...)
					} else {
						b = append(b, '[')
					}
				}
				leaf := p.Leaf
				if leaf == "" {
					leaf = "null"
				}
				b = append(b, leaf...)
				for i := p.Depth - 1; i >= k; i-- {
					if i%2 == 1 {
						b = append(b, '}')
					} else {
						b = append(b, ']')
					}
				}
				if p.Leaf == "" {
					// the remainder was built with a null leaf: nesting is p.Depth
					// (handled by the verdict through nest, which equals p.Depth for leaf "")
				}
				return e.WriteValue(b)
			}
			rt, _ := rest.towerText()
			return e.WriteValue(rt)
		})
	case "Marshal-anyslice", "MarshalWrite-anyslice", "Marshal-anymap", "Marshal-ptrchain", "Marshal-recslice", "Marshal-recmap", "Marshal-reenter":
		v, n := sc.deepValue(p)
		nest = n
		wantOK = nest <= 10000
		guard(p.Path, func() error {
			if p.Path == "MarshalWrite-anyslice" {
				return json.MarshalWrite(core.NewSimWriter(core.WritePlan{}), v)
			}
			_, err := json.Marshal(v)
			return err
		})
	case "MarshalEncode-at-depth":
		guard(p.Path, func() error {
			e := jsontext.NewEncoder(io.Discard)
			for i := 0; i < p.Depth; i++ {
				if err := e.WriteToken(jsontext.BeginArray); err != nil {
					return err
				}
			}
			var v any
			switch p.Leaf {
			case "", "null":
				v = nil
				nest = p.Depth
			case "1", `""`:
				v = 1
				nest = p.Depth
			case "[]":
				v = []int{}
				nest = p.Depth + 1
			case "{}":
				v = map[string]int{}
				nest = p.Depth + 1
			default:
				v = []any{map[string]any{}}
				nest = p.Depth + 2
			}
			if p.GoLeaf > 0 {
				v, nest = goLeaves[p.GoLeaf-1].v, p.Depth+goLeaves[p.GoLeaf-1].extra
			}
			wantOK = nest <= 10000
			return json.MarshalEncode(e, v)
		})
	case "Unmarshal-any", "UnmarshalRead-any":
		guard(p.Path, func() error {
			var x any
			if p.Path == "UnmarshalRead-any" {
				return json.UnmarshalRead(core.NewSimReader(text, p.Read), &x)
			}
			return json.Unmarshal(text, &x)
		})
	case "Unmarshal-linked":
		// objects {"a":...} and arrays under "l"
		var b []byte
		for i := 0; i < p.Depth; i++ {
			b = append(b, `{"a":`...)
		}
		b = append(b, "null"...)
		b = append(b, strings.Repeat("}", p.Depth)...)
		nest = p.Depth
		wantOK = nest <= 10000
		guard(p.Path, func() error {
			var x linkedT
			return json.Unmarshal(b, &x)
		})
	case "Unmarshal-into-self-referential-interface":
		// var x any; x = &x; Unmarshal(text, &x) - unbounded recursion would be
		// fatal to the process, so it runs in a child
		which := []string{"v2", "v1"}[p.Mix%2]
		out, err := exec.Command(os.Args[0], "probe", "unmarshal-self-"+which).CombinedOutput()
		st.Steps++
		st.Probe("c20/unmarshal-self-referential-interface/" + which + "(child process)")
		if err != nil || !bytes.Contains(out, []byte("PROBE-RESULT")) {
			report("C20", "C20/unbounded-recursion", "Unmarshal-self-interface/"+which, "Unmarshal into an interface that holds a pointer to itself did not return: child process: %v %s", err, clip(out, 200))
		}
	case "Marshal-cyclic":
		if p.Cyclic == "interface-pointer" || p.Cyclic == "pointer-to-pointer" || p.Cyclic == "two-pointer-types" || p.Cyclic == "double-pointer" {
			// these cycles never deepen the JSON nesting; unbounded recursion would
			// overflow the stack, which is fatal to the process - so this case
			// runs in a child process
			out, err := exec.Command(os.Args[0], "probe", "cyclic-"+p.Cyclic).CombinedOutput()
			st.Steps++
			st.Probe("c20/cyclic/" + p.Cyclic + "(child process)")
			if err != nil || !bytes.Contains(out, []byte("PROBE-RESULT error")) {
				report("C20", "C20/cycle-not-detected", p.Cyclic, "Marshal of a cyclic value (%s) did not return an error: child process: %v %s", p.Cyclic, err, clip(out, 200))
			}
			break
		}
		v := sc.cyclicValue(p)
		err, panicked, lib, pv := guarded(func() error { _, e := json.Marshal(v); return e })
		st.Steps++
		st.Probe("c20/cyclic/" + p.Cyclic)
		if panicked && lib {
			report("C20", "C20/panic", "Marshal-cyclic/"+p.Cyclic, "panic: %v", pv)
		} else if err == nil {
			report("C20", "C20/cycle-not-detected", p.Cyclic, "Marshal of a cyclic value (%s) returned nil", p.Cyclic)
		}
	}
	st.Nontrivial = true
	st.SigAdd(0x20, hashBytes([]byte(fmt.Sprint(p.Path, p.Depth, p.Mix, p.Leaf, p.Split, p.Cyclic, p.Read.MaxChunk))))
	return p, viols
}

func writeTower(e *jsontext.Encoder, p *DepthPlan) error {
	for i := 0; i < p.Depth; i++ {
		obj := p.Mix == 1 || (p.Mix == 2 && i%2 == 1)
		if obj {
			if err := e.WriteToken(jsontext.BeginObject); err != nil {
				return err
			}
			if err := e.WriteToken(jsontext.String("a")); err != nil {
				return err
			}
		} else if err := e.WriteToken(jsontext.BeginArray); err != nil {
			return err
		}
	}
	if p.Leaf != "" {
		if err := e.WriteValue(jsontext.Value(p.Leaf)); err != nil {
			return err
		}
	}
	return nil
}

// deepValue builds a Go value whose JSON form nests n levels.
func (sc *Depth) deepValue(p *DepthPlan) (any, int) {
	d := p.Depth
	switch p.Path {
	case "Marshal-anyslice", "MarshalWrite-anyslice", "Marshal-reenter":
		var v any
		nest := d
		switch p.Leaf {
		case "[]", "[{}]":
			v = []any{}
			nest = d + 1
		case "{}", `{"a":[]}`:
			v = map[string]any{}
			nest = d + 1
		case "":
			v = nil
		default:
			v = 1.5
		}
		if p.GoLeaf > 0 && p.Path != "Marshal-reenter" {
			v, nest = goLeaves[p.GoLeaf-1].v, d+goLeaves[p.GoLeaf-1].extra
		}
		if p.Path == "Marshal-reenter" {
			// a peer half-way down re-enters Marshal (on a fresh encoder) and then writes one value
			peers.Cur.Beh[7] = peers.Behaviour{Kind: peers.BReenter, Payload: "1"}
		}
		for i := 0; i < d; i++ {
			if p.Path == "Marshal-reenter" && i == d/2 {
				v = []any{v, peers.PTo{ID: 7}}
				continue
			}
			v = []any{v}
		}
		return v, nest
	case "Marshal-anymap":
		var v any = "leaf"
		nest := d
		if p.Leaf == "{}" {
			v = map[string]any{}
			nest = d + 1
		}
		for i := 0; i < d; i++ {
			v = map[string]any{"k": v}
		}
		return v, nest
	case "Marshal-ptrchain":
		var head *ptrNode
		nest := d
		leaf := &ptrNode{Leaf: 1}
		if p.Leaf == "[]" {
			leaf = &ptrNode{Leaf: []int{}}
			nest = d + 1
		}
		head = leaf
		for i := 1; i < d; i++ {
			head = &ptrNode{Next: head}
		}
		return head, nest
	case "Marshal-recslice":
		v := recSlice{}
		for i := 1; i < d; i++ {
			v = recSlice{v}
		}
		return v, d
	default: // Marshal-recmap
		v := recMap{}
		for i := 1; i < d; i++ {
			v = recMap{"k": v}
		}
		return v, d
	}
}

func (sc *Depth) cyclicValue(p *DepthPlan) any {
	switch p.Cyclic {
	case "pointer-self":
		n := &ptrNode{}
		n.Next = n
		return n
	case "map-self":
		m := map[string]any{}
		m["self"] = m
		return m
	case "slice-self":
		s := make([]any, 1)
		s[0] = s
		return s
	case "interface-pointer":
		var x any
		x = &x
		return x
	case "pointer-to-pointer":
		var pp ptrP
		pp = &pp
		return pp
	case "two-pointer-types":
		var a ptrA
		var b ptrB
		a, b = &b, &a
		return a
	case "double-pointer":
		var q ptrQ
		var q1 *ptrQ = &q
		q = &q1
		return q
	case "interface-in-struct-pointer":
		n := &ptrNode{}
		n.Leaf = n
		return n
	case "struct-ring":
		a, b, c := &ptrNode{}, &ptrNode{}, &ptrNode{}
		a.Next, b.Next, c.Next = b, c, a
		return []any{a, map[string]any{"x": b}}
	default: // deep-then-cycle
		m := map[string]any{}
		var v any = m
		for i := 0; i < 1200; i++ {
			v = []any{v}
		}
		m["back"] = v
		return v
	}
}

// ProbeCyclic is run in a child process: it prints PROBE-RESULT error|nil.
func ProbeCyclic(kind string) {
	if strings.HasPrefix(kind, "unmarshal-self-") {
		var x any
		x = &x
		var err error
		if kind == "unmarshal-self-v1" {
			err = jsonv1.Unmarshal([]byte(`{"a":[1]}`), &x)
		} else {
			err = json.Unmarshal([]byte(`{"a":[1]}`), &x)
		}
		fmt.Println("PROBE-RESULT returned", err)
		return
	}
	p := &DepthPlan{Cyclic: strings.TrimPrefix(kind, "cyclic-")}
	v := (&Depth{}).cyclicValue(p)
	_, err := json.Marshal(v)
	if err != nil {
		fmt.Println("PROBE-RESULT error")
	} else {
		fmt.Println("PROBE-RESULT nil")
	}
}
