package scen

import (
	"bytes"
	"errors"
	"fmt"
	"math"
	"sort"
	"strings"
	"time"

	json "github.com/go-json-experiment/json"
	"github.com/go-json-experiment/json/jsontext"
	jsonv1 "github.com/go-json-experiment/json/v1"

	"verifsim/core"
	"verifsim/gen"
	"verifsim/peers"
	"verifsim/refjson"
)

// Scope is the C19 scenario (call-scoping clause): options passed to
// MarshalEncode / UnmarshalDecode apply to that call only and the coder's own
// options are intact afterwards, also after the call failed (writer/reader
// fault, user-code error, conversion error, refused option change).
type Scope struct{}

// optSnapshot reads every public option through GetOption.
func optSnapshot(o json.Options) string {
	var parts []string
	add := func(name string, v any, ok bool) { parts = append(parts, fmt.Sprintf("%s=%v/%v", name, v, ok)) }
	gb := func(name string, f func(bool) json.Options) {
		v, ok := json.GetOption(o, f)
		add(name, v, ok)
	}
	gb("AllowDuplicateNames", jsontext.AllowDuplicateNames)
	gb("AllowInvalidUTF8", jsontext.AllowInvalidUTF8)
	gb("EscapeForHTML", jsontext.EscapeForHTML)
	gb("EscapeForJS", jsontext.EscapeForJS)
	gb("PreserveRawStrings", jsontext.PreserveRawStrings)
	gb("CanonicalizeRawInts", jsontext.CanonicalizeRawInts)
	gb("CanonicalizeRawFloats", jsontext.CanonicalizeRawFloats)
	gb("ReorderRawObjects", jsontext.ReorderRawObjects)
	gb("SpaceAfterColon", jsontext.SpaceAfterColon)
	gb("SpaceAfterComma", jsontext.SpaceAfterComma)
	gb("Multiline", jsontext.Multiline)
	gb("StringifyNumbers", json.StringifyNumbers)
	gb("Deterministic", json.Deterministic)
	gb("FormatNilSliceAsNull", json.FormatNilSliceAsNull)
	gb("FormatNilMapAsNull", json.FormatNilMapAsNull)
	gb("OmitZeroStructFields", json.OmitZeroStructFields)
	gb("MatchCaseInsensitiveNames", json.MatchCaseInsensitiveNames)
	gb("RejectUnknownMembers", json.RejectUnknownMembers)
	gb("v1.FormatByteArrayAsArray", jsonv1.FormatByteArrayAsArray)
	gb("v1.MergeWithLegacySemantics", jsonv1.MergeWithLegacySemantics)
	gb("v1.StringifyWithLegacySemantics", jsonv1.StringifyWithLegacySemantics)
	gb("v1.UnmarshalArrayFromAnyLength", jsonv1.UnmarshalArrayFromAnyLength)
	gb("v1.OmitEmptyWithLegacySemantics", jsonv1.OmitEmptyWithLegacySemantics)
	gb("v1.ReportErrorsWithLegacySemantics", jsonv1.ReportErrorsWithLegacySemantics)
	{
		v, ok := json.GetOption(o, jsontext.WithIndent)
		add("WithIndent", fmt.Sprintf("%q", v), ok)
	}
	{
		v, ok := json.GetOption(o, jsontext.WithIndentPrefix)
		add("WithIndentPrefix", fmt.Sprintf("%q", v), ok)
	}
	{
		v, ok := json.GetOption(o, json.WithMarshalers)
		add("WithMarshalers", fmt.Sprintf("%p", v), ok)
	}
	{
		v, ok := json.GetOption(o, json.WithUnmarshalers)
		add("WithUnmarshalers", fmt.Sprintf("%p", v), ok)
	}
	sort.Strings(parts)
	return strings.Join(parts, " ")
}

// scopedOpt is one per-call option the plan may pass.
var scopedOptNames = []string{"StringifyNumbers", "Deterministic", "FormatNilSliceAsNull", "EscapeForHTML", "SpaceAfterComma", "Multiline", "WithIndent", "AllowDuplicateNames", "AllowInvalidUTF8", "WithMarshalers", "OmitZeroStructFields", "v1.FormatByteArrayAsArray", "RejectUnknownMembers", "v1.UnmarshalArrayFromAnyLength", "WithUnmarshalers"}

type ScopeItem struct {
	Kind     string   `json:"kind"` // token | encode | decode
	Tok      EncCall  `json:"tok,omitempty"`
	Value    int      `json:"value,omitempty"` // index into scopeValues
	CallOpts []string `json:"call_opts,omitempty"`
	Text     string   `json:"text,omitempty"`
}

type ScopePlan struct {
	Side     string         `json:"side"` // encode | decode
	Coder    []string       `json:"coder_opts"`
	InObject bool           `json:"in_object"`
	Items    []ScopeItem    `json:"items"`
	Write    core.WritePlan `json:"write"`
	Read     core.ReadPlan  `json:"read"`
	PeerKind int            `json:"peer_kind"`
}

type scopeT struct {
	A int               `json:"a"`
	B []int             `json:"b"`
	C map[string]int    `json:"c,omitzero"`
	D string            `json:"d"`
	E [3]byte           `json:"e"`
	F *scopeT           `json:"f,omitempty"`
	G float64           `json:"g"`
	H peers.PTo         `json:"h"`
	I map[string]string `json:"i"`
	S int               `json:"s,string"`
	T time.Time         `json:"t,omitzero"`
	U []byte            `json:"u"`
	V uint8             `json:"v,string"`
	W float64           `json:"w,string"`
}

func scopeValue(i int) any {
	switch i % 10 {
	case 8:
		// the value of a `string`-tagged field fails: the tag's option must not
		// stay behind in the coder's own options
		return scopeT{A: 8, W: math.NaN(), H: peers.PTo{ID: 1}}
	case 9:
		return []any{scopeT{A: 9, H: peers.PTo{ID: 1}}, &scopeT{W: math.Inf(-1), H: peers.PTo{ID: 1}}}
	case 0:
		return scopeT{A: 1, D: "<tag>", G: 1.5, H: peers.PTo{ID: 1}}
	case 1:
		return []any{1.5, "x", nil, map[string]any{"k": []int(nil)}}
	case 2:
		return scopeT{A: 2, B: []int{1, 2}, C: map[string]int{"z": 1, "a": 2}, G: math.NaN(), H: peers.PTo{ID: 1}} // conversion error
	case 3:
		return scopeT{A: 3, H: peers.PTo{ID: 2}} // peer ID 2 may be scripted to fail
	case 4:
		return map[string]int{"b": 1, "a": 2, "c": 3}
	case 5:
		return "plain <&>  "
	case 6:
		return []scopeT{{A: 1, H: peers.PTo{ID: 1}, E: [3]byte{1, 2, 3}}, {D: strings.Repeat("pad", 700), H: peers.PTo{ID: 1}}}
	default:
		return 12345
	}
}

func scopeOpt(name string, penv *peers.Env) json.Options {
	switch name {
	case "StringifyNumbers":
		return json.StringifyNumbers(true)
	case "Deterministic":
		return json.Deterministic(true)
	case "FormatNilSliceAsNull":
		return json.FormatNilSliceAsNull(true)
	case "EscapeForHTML":
		return jsontext.EscapeForHTML(true)
	case "SpaceAfterComma":
		return jsontext.SpaceAfterComma(true)
	case "Multiline":
		return jsontext.Multiline(true)
	case "WithIndent":
		return jsontext.WithIndent("  ")
	case "AllowDuplicateNames":
		return jsontext.AllowDuplicateNames(true)
	case "AllowInvalidUTF8":
		return jsontext.AllowInvalidUTF8(true)
	case "WithMarshalers":
		return json.WithMarshalers(json.MarshalFunc(func(v int) ([]byte, error) { return []byte(`"int"`), nil }))
	case "OmitZeroStructFields":
		return json.OmitZeroStructFields(true)
	case "v1.FormatByteArrayAsArray":
		return jsonv1.FormatByteArrayAsArray(true)
	case "RejectUnknownMembers":
		return json.RejectUnknownMembers(true)
	case "v1.UnmarshalArrayFromAnyLength":
		return jsonv1.UnmarshalArrayFromAnyLength(true)
	case "WithUnmarshalers":
		return json.WithUnmarshalers(json.UnmarshalFunc(func(b []byte, v *int) error { *v = 42; return nil }))
	}
	return json.Deterministic(false)
}

func (sc *Scope) plan(t *core.Tape) *ScopePlan {
	p := &ScopePlan{}
	s := t.S("plan")
	p.Side = []string{"encode", "decode"}[s.Draw(2)]
	for i, n := 0, s.Draw(3); i < n; i++ {
		p.Coder = append(p.Coder, scopedOptNames[s.Draw(9)]) // coder-level: first 9 (no funcs)
	}
	p.InObject = s.Chance(1, 3)
	p.PeerKind = []int{peers.BOK, peers.BOK, peers.BErr, peers.BPanic, peers.BTwo}[s.Draw(5)]
	n := 2 + s.Draw(8)
	for i := 0; i < n; i++ {
		it := ScopeItem{}
		switch {
		case s.Chance(1, 3):
			it.Kind = "token"
			it.Tok = EncCall{Op: 'T', Tok: 's', S: []string{"x", "<&>", "long " + strings.Repeat("y", 90)}[s.Draw(3)]}
			if s.Bool() {
				it.Tok = EncCall{Op: 'T', Tok: 'F', F: s.Draw(8)}
			}
		default:
			it.Kind = p.Side
			it.Value = s.Draw(10)
			for k, m := 0, s.Weighted(2, 3, 2, 1); k < m; k++ {
				it.CallOpts = append(it.CallOpts, scopedOptNames[s.Draw(len(scopedOptNames))])
			}
		}
		p.Items = append(p.Items, it)
	}
	fs := t.S("faults")
	if fs.Chance(1, 3) {
		if p.Side == "encode" {
			p.Write.FaultAt = []core.WriteFault{{Off: gen.Size(fs, 3000), Kind: 1 + fs.Draw(3)}}
		} else {
			c := fs.Draw(600)
			p.Read.Cuts = []int{c}
			p.Read.FaultAt = []int{c}
		}
	}
	if p.Side == "decode" {
		p.Read.MaxChunk = []int{0, 1, 7, 64}[fs.Draw(4)]
	}
	return p
}

var scopeTexts = []string{
	`{"a":1,"s":"12","b":[1,2],"d":"x","unknown":true}`,
	`[1.5,"x",null,{"k":null}]`,
	`{"a":"not a number"}`,
	`{"a":3,"s":"x12","e":"AQI="}`,
	`{"b":[1],"t":"2000-13-01T00:00:00Z","c":{"z":1},"g":2.5}`,
	`"plain"`,
	`{"a":1,"a":2}`,
	`{"v":true,"a":5}`,
	`{"a":8,"w":"NaN?","s":"1"}`,
	`[{"a":9,"w":"1.5"},{"w":"-","a":1}]`,
}

func (sc *Scope) Run(t *core.Tape, env *Env) (any, []core.Violation) {
	p := sc.plan(t)
	st := env.Stats
	var viols []core.Violation
	report := func(prop, class, site, f string, a ...any) bool {
		v := core.Violationf(prop, class, site, f, a...)
		viols = append(viols, v)
		return v.Property == env.Prop && !env.Known[v.Key()]
	}
	penv := &peers.Env{Beh: map[int]peers.Behaviour{1: {Payload: `"peer"`}, 2: {Kind: p.PeerKind, Payload: `"peer2"`}}}
	// aliasing probe: a snapshot of the options taken inside the callback must
	// keep the values it had then
	var innerSnapshot json.Options
	var innerSnapshotStr string
	penv.CheckOpts = func(o jsontext.Options) string {
		innerSnapshot = json.JoinOptions(o)
		innerSnapshotStr = optSnapshot(innerSnapshot)
		return ""
	}
	peers.Cur = penv
	defer func() { peers.Cur = &peers.Env{} }()
	var coderOpts []json.Options
	for _, n := range p.Coder {
		coderOpts = append(coderOpts, scopeOpt(n, penv))
	}
	jt := func(os []json.Options) []jsontext.Options {
		r := make([]jsontext.Options, len(os))
		for i, o := range os {
			r[i] = o
		}
		return r
	}
	checkInner := func(where string) bool {
		if innerSnapshot != nil {
			if now := optSnapshot(innerSnapshot); now != innerSnapshotStr {
				return report("C19", "C19/joined-options-alias-the-coder", where, "JoinOptions(coder.Options()) taken inside the call changed after the call returned: then %s ; now %s", diffSnap(innerSnapshotStr, now), "")
			}
		}
		return false
	}

	if p.Side == "encode" {
		sw := core.NewSimWriter(p.Write)
		enc := jsontext.NewEncoder(sw, jt(coderOpts)...)
		own := optSnapshot(enc.Options())
		if p.InObject {
			enc.WriteToken(jsontext.BeginObject)
		} else {
			enc.WriteToken(jsontext.BeginArray)
		}
		wrote := 0 // values written so far in the container (decides whether a comma precedes the next one)
		for i, it := range p.Items {
			if p.InObject {
				if err := enc.WriteToken(jsontext.String(fmt.Sprintf("m%d", i))); err != nil {
					if errors.Is(err, core.ErrInjected) {
						st.Nontrivial = true
					}
				}
			}
			if it.Kind == "token" {
				if encDo(enc, it.Tok) == nil {
					wrote++
				}
				continue
			}
			var callOpts []json.Options
			for _, n := range it.CallOpts {
				callOpts = append(callOpts, scopeOpt(n, penv))
			}
			v := scopeValue(it.Value)
			before := optSnapshot(enc.Options())
			off0 := enc.OutputOffset()
			depth0 := enc.StackDepth()
			err, panicked, lib, pv := guarded(func() error { return json.MarshalEncode(enc, v, callOpts...) })
			st.Steps++
			if panicked && lib {
				report("C20", "C20/panic", "MarshalEncode", "panic: %v", pv)
				return p, viols
			}
			after := optSnapshot(enc.Options())
			outcome := "ok"
			switch {
			case panicked:
				outcome = "peer-panic"
			case err != nil && errors.Is(err, core.ErrInjected):
				outcome = "write-fault"
			case err != nil:
				outcome = "error"
			}
			if outcome != "ok" {
				st.Nontrivial = true
			}
			st.Probe("c19/encode/" + outcome)
			if after != before || after != own {
				if report("C19", "C19/coder-options-not-restored", "MarshalEncode/"+outcome, "item %d call options %v: coder options changed: %s", i, it.CallOpts, diffSnap(before, after)) {
					return p, viols
				}
			}
			if checkInner("MarshalEncode/" + outcome) {
				return p, viols
			}
			if outcome != "ok" {
				if enc.OutputOffset() == off0 && enc.StackDepth() == depth0 {
					// refused before anything was written: the encoder is usable; later
					// tokens must be formatted per its own options
					st.Probe("c19/encode/refused-cleanly")
					if p.InObject {
						enc.WriteToken(jsontext.Null)
						wrote++
					}
					continue
				}
				break // abandoned mid-value
			}
			// the value's bytes are those of Marshal under coder+call options
			// (checked when the layout options play no role)
			if err == nil && !hasAny(append(p.Coder, it.CallOpts...), "SpaceAfterComma", "Multiline", "WithIndent") && len(p.Write.FaultAt) == 0 {
				want, werr := json.Marshal(v, append(append([]json.Options{}, coderOpts...), callOpts...)...)
				if werr == nil {
					// buffered bytes are not visible; compare through the offset
					if int64(len(want)) != enc.OutputOffset()-off0-int64(sepLen(p.InObject, wrote)) {
						if report("C19", "C19/call-options-not-applied", "MarshalEncode", "item %d: value took %d bytes (incl. separator), Marshal with coder+call options gives %d (%s); coder opts %v call opts %v", i, enc.OutputOffset()-off0, len(want), clip(want, 100), p.Coder, it.CallOpts) {
							return p, viols
						}
					}
				}
			}
			wrote++
		}
		st.Fault("write/short", sw.NShort)
		st.Fault("write/error-after-full-write", sw.NErrAfter)
		st.Fault("write/zero-progress-error", sw.NReject)
	} else {
		var stream bytes.Buffer
		if p.InObject {
			stream.WriteString("{")
		} else {
			stream.WriteString("[")
		}
		n := 0
		for i, it := range p.Items {
			if it.Kind == "token" {
				continue
			}
			if n > 0 {
				stream.WriteString(",")
			}
			if p.InObject {
				fmt.Fprintf(&stream, `"m%d":`, i)
			}
			stream.WriteString(scopeTexts[it.Value])
			n++
		}
		if p.InObject {
			stream.WriteString("}")
		} else {
			stream.WriteString("]")
		}
		sim := core.NewSimReader(stream.Bytes(), p.Read)
		dec := jsontext.NewDecoder(sim, jt(coderOpts)...)
		own := optSnapshot(dec.Options())
		dec.ReadToken()
		for i, it := range p.Items {
			if it.Kind == "token" {
				continue
			}
			if p.InObject {
				if _, err := dec.ReadToken(); err != nil {
					break
				}
			}
			var callOpts []json.Options
			for _, n := range it.CallOpts {
				callOpts = append(callOpts, scopeOpt(n, penv))
			}
			target := decTargets[(it.Value*7+i)%len(decTargets)].New()
			if it.Value == 0 || it.Value == 3 || it.Value == 4 || it.Value == 7 {
				target = new(scopeT) // incl. errors inside `string`- and `format`-tagged fields
			}
			before := optSnapshot(dec.Options())
			err, panicked, lib, pv := guarded(func() error { return json.UnmarshalDecode(dec, target, callOpts...) })
			st.Steps++
			if panicked && lib {
				report("C20", "C20/panic", "UnmarshalDecode", "panic: %v", pv)
				return p, viols
			}
			after := optSnapshot(dec.Options())
			outcome := "ok"
			switch {
			case err != nil && errors.Is(err, core.ErrInjected):
				outcome = "read-fault"
			case err != nil:
				outcome = "error"
			}
			if outcome != "ok" {
				st.Nontrivial = true
			}
			st.Probe("c19/decode/" + outcome)
			if after != before || after != own {
				if report("C19", "C19/coder-options-not-restored", "UnmarshalDecode/"+outcome, "item %d call options %v: coder options changed: %s", i, it.CallOpts, diffSnap(before, after)) {
					return p, viols
				}
			}
			if err != nil {
				break
			}
		}
		st.Fault("read/transient-error", sim.NErr)
		st.Fault("read/short", sim.NShort)
	}

	// Nested scoped calls made from inside a user method: the non-boolean options of an
	// inner UnmarshalDecode / MarshalEncode apply to that inner call only - checked by
	// behaviour, since a leaked value behind a cleared presence bit is invisible to GetOption.
	{
		sim := core.NewSimReader([]byte(`[{"N":1},{"N":2}] {"N":3}`), p.Read)
		dec := jsontext.NewDecoder(sim)
		o := scopeNestOuter{}
		var c scopeNestInner
		err, panicked, _, _ := guarded(func() error {
			if err := json.UnmarshalDecode(dec, &o); err != nil {
				return err
			}
			return json.UnmarshalDecode(dec, &c)
		})
		st.Steps++
		if !panicked && err == nil {
			st.Probe("c19/nested-scoped/decode-ok")
			if o.present || o.a.N != -1 || o.b.N != 2 || c.N != 3 {
				report("C19", "C19/nested-call-options-leak", "UnmarshalDecode", "inner scoped UnmarshalDecode(WithUnmarshalers(f)) inside UnmarshalJSONFrom: got a.N=%d (want -1) b.N=%d (want 2), then top-level N=%d (want 3), option reported present afterwards=%v", o.a.N, o.b.N, c.N, o.present)
			}
		}
		var w bytes.Buffer
		enc := jsontext.NewEncoder(&w)
		mo := scopeNestOuter{}
		err, panicked, _, _ = guarded(func() error {
			if err := json.MarshalEncode(enc, &mo); err != nil {
				return err
			}
			return json.MarshalEncode(enc, scopeNestInner{N: 3})
		})
		st.Steps++
		if !panicked && err == nil {
			st.Probe("c19/nested-scoped/encode-ok")
			if got, want := w.String(), "[-1,{\"N\":2}]\n{\"N\":3}\n"; got != want || mo.present {
				report("C19", "C19/nested-call-options-leak", "MarshalEncode", "inner scoped MarshalEncode(WithMarshalers(f)) inside MarshalJSONTo: output %q want %q, option reported present afterwards=%v", got, want, mo.present)
			}
		}
	}

	// By-product (pure clause, sampled, not decided by simulation): appending
	// DefaultOptionsV2 cancels every v1 option.
	{
		v := scopeValue(t.S("plan").Draw(8))
		a, e1, p1, _, _ := guardedBytes(func() ([]byte, error) { return json.Marshal(v, json.Deterministic(true)) })
		b, e2, p2, _, _ := guardedBytes(func() ([]byte, error) {
			return json.Marshal(v, jsonv1.DefaultOptionsV1(), json.DefaultOptionsV2(), json.Deterministic(true))
		})
		if !p1 && !p2 && ((e1 == nil) != (e2 == nil) || !bytes.Equal(a, b)) {
			report("C19", "C19/defaultoptionsv2-does-not-cancel-v1", "Marshal", "Marshal(v)=%s err=%v ; Marshal(v, DefaultOptionsV1(), DefaultOptionsV2())=%s err=%v", clip(a, 120), classify(e1), clip(b, 120), classify(e2))
		}
		for _, name := range []string{"v1.FormatByteArrayAsArray", "StringifyNumbers", "FormatNilSliceAsNull", "OmitZeroStructFields"} {
			on := scopeOpt(name, penv)
			var off json.Options
			switch name {
			case "v1.FormatByteArrayAsArray":
				off = jsonv1.FormatByteArrayAsArray(false)
			case "StringifyNumbers":
				off = json.StringifyNumbers(false)
			case "FormatNilSliceAsNull":
				off = json.FormatNilSliceAsNull(false)
			default:
				off = json.OmitZeroStructFields(false)
			}
			c, e3, p3, _, _ := guardedBytes(func() ([]byte, error) { return json.Marshal(v, on, off, json.Deterministic(true)) })
			if !p1 && !p3 && ((e1 == nil) != (e3 == nil) || !bytes.Equal(a, c)) {
				report("C19", "C19/later-option-does-not-win", name, "Marshal(v)=%s ; Marshal(v, %s(true), %s(false))=%s", clip(a, 120), name, name, clip(c, 120))
			}
		}
	}
	// By-product (pure): passing options separately, joined or nested gives the same result.
	{
		bs := t.S("byproduct")
		v := scopeValue(bs.Draw(8))
		var names []string
		for k, m := 0, 2+bs.Draw(3); k < m; k++ {
			if bs.Chance(1, 6) {
				names = append(names, "WithMarshalers", "WithMarshalers(nil)")
				continue
			}
			names = append(names, scopedOptNames[bs.Draw(len(scopedOptNames))])
		}
		mk := func() []json.Options {
			var os []json.Options
			for _, n := range names {
				if n == "WithMarshalers" {
					os = append(os, json.WithMarshalers(byproductMarshalers))
				} else if n == "WithMarshalers(nil)" {
					os = append(os, json.WithMarshalers(nil))
				} else {
					os = append(os, scopeOpt(n, penv))
				}
			}
			return append(os, json.Deterministic(true))
		}
		flat := mk()
		cut := 1 + bs.Draw(len(flat)-1)
		nested := []json.Options{json.JoinOptions(flat[:cut]...), json.JoinOptions(json.JoinOptions(flat[cut:]...))}
		a, e1, p1, _, _ := guardedBytes(func() ([]byte, error) { return json.Marshal(v, flat...) })
		b, e2, p2, _, _ := guardedBytes(func() ([]byte, error) { return json.Marshal(v, nested...) })
		c, e3, p3, _, _ := guardedBytes(func() ([]byte, error) { return json.Marshal(v, json.JoinOptions(flat...)) })
		if !p1 && !p2 && !p3 && ((e1 == nil) != (e2 == nil) || !bytes.Equal(a, b) || (e1 == nil) != (e3 == nil) || !bytes.Equal(a, c)) {
			report("C19", "C19/flat-vs-nested-options", "Marshal", "options %v: flat %s err=%v ; nested (cut %d) %s err=%v ; joined %s err=%v", names, clip(a, 100), classify(e1), cut, clip(b, 100), classify(e2), clip(c, 100), classify(e3))
		}
	}
	// By-product (pure), marshal side, one probe per boolean option with a value
	// for which the option matters: set and then cancelled (flat and nested), and
	// cancelled by DefaultOptionsV2, must all give what no option gives.
	for _, pr := range marshalOptProbes {
		base, eb, pb, _, _ := guardedBytes(func() ([]byte, error) { return json.Marshal(pr.v, json.Deterministic(true)) })
		on, _, _, _, _ := guardedBytes(func() ([]byte, error) { return json.Marshal(pr.v, pr.opt(true), json.Deterministic(true)) })
		if !bytes.Equal(on, base) {
			st.Probe("c19/byproduct/option-matters/" + pr.name)
		}
		for vi, variant := range [][]json.Options{
			{pr.opt(true), pr.opt(false)},
			{pr.opt(true), json.JoinOptions(json.Deterministic(true), pr.opt(false))},
			{json.JoinOptions(pr.opt(true), json.JoinOptions(pr.opt(false)))},
			{jsonv1.DefaultOptionsV1(), pr.opt(true), json.DefaultOptionsV2()},
		} {
			if vi == 3 && !strings.HasPrefix(pr.name, "v1.") {
				continue // DefaultOptionsV2 is documented to cancel the v1 options, nothing else
			}
			x, ex, px, _, _ := guardedBytes(func() ([]byte, error) { return json.Marshal(pr.v, append(variant, json.Deterministic(true))...) })
			if !pb && !px && ((eb == nil) != (ex == nil) || !bytes.Equal(base, x)) {
				report("C19", "C19/later-option-does-not-win", "Marshal/"+pr.name, "Marshal(%T) gives %s err=%v ; with %s set and then cancelled (variant %d) %s err=%v", pr.v, clip(base, 100), classify(eb), pr.name, vi, clip(x, 100), classify(ex))
				break
			}
		}
	}
	{
		// a nested WithUnmarshalers(nil) cancels an earlier one like a flat one does
		u := json.UnmarshalFromFunc(func(dec *jsontext.Decoder, p *int) error { *p = -1; return dec.SkipValue() })
		var a, b, c int
		e1 := json.Unmarshal([]byte(`5`), &a, json.WithUnmarshalers(u), json.WithUnmarshalers(nil))
		e2 := json.Unmarshal([]byte(`5`), &b, json.WithUnmarshalers(u), json.JoinOptions(json.WithUnmarshalers(nil)))
		e3 := json.Unmarshal([]byte(`5`), &c, json.JoinOptions(json.WithUnmarshalers(u), json.JoinOptions(json.Deterministic(true), json.WithUnmarshalers(nil))))
		if e1 != nil || e2 != nil || e3 != nil || a != b || a != c {
			report("C19", "C19/flat-vs-nested-options", "Unmarshal/WithUnmarshalers(nil)", "WithUnmarshalers(u) then WithUnmarshalers(nil): flat gives %d (%v), nested %d (%v), joined %d (%v)", a, classify(e1), b, classify(e2), c, classify(e3))
		}
	}
	// By-product (pure), unmarshal side: a later false wins, DefaultOptionsV2 cancels v1 options.
	for _, pr := range unmarshalOptProbes {
		base := pr.new()
		eb := json.Unmarshal([]byte(pr.text), base)
		for _, variant := range [][]json.Options{{jsonv1.DefaultOptionsV1(), json.DefaultOptionsV2()}, {pr.opt(true), pr.opt(false)}} {
			x := pr.new()
			ex := json.Unmarshal([]byte(pr.text), x, variant...)
			if (eb == nil) != (ex == nil) || renderAny(base) != renderAny(x) {
				report("C19", "C19/later-option-does-not-win", "Unmarshal/"+pr.name, "Unmarshal(%s): default gives %s err=%v ; with the option set and then cancelled %s err=%v", pr.text, renderAny(base), classify(eb), renderAny(x), classify(ex))
				break
			}
		}
	}
	_ = refjson.Complete
	st.SigAdd(0x19, hashBytes([]byte(fmt.Sprint(p.Side, p.Coder, p.InObject, p.PeerKind))), uint64(len(p.Items)))
	for _, it := range p.Items {
		st.SigAdd(hashBytes([]byte(it.Kind+strings.Join(it.CallOpts, ","))), uint64(it.Value))
	}
	return p, viols
}

func guardedBytes(f func() ([]byte, error)) (out []byte, err error, panicked, lib bool, pv any) {
	err, panicked, lib, pv = guarded(func() (e error) { out, e = f(); return })
	return
}

func sepLen(inObject bool, i int) int {
	// bytes between the previous OutputOffset and the value: ',' (if not first) for arrays;
	// for objects the name was written separately, so only ':'
	if inObject {
		return 1
	}
	if i == 0 {
		return 0
	}
	return 1
}

func hasAny(xs []string, names ...string) bool {
	for _, x := range xs {
		for _, n := range names {
			if x == n {
				return true
			}
		}
	}
	return false
}

func diffSnap(a, b string) string {
	as, bs := strings.Split(a, " "), strings.Split(b, " ")
	var d []string
	for i := range as {
		if i < len(bs) && as[i] != bs[i] {
			d = append(d, as[i]+" -> "+bs[i])
		}
	}
	if len(d) == 0 {
		return "(identical)"
	}
	return strings.Join(d, "; ")
}

var byproductMarshalers = json.MarshalFunc(func(v int) ([]byte, error) { return []byte(`"int"`), nil })

type scopeNamedByte byte

type scopeLegacyOmit struct {
	P *string `json:"p,omitempty"`
	Z [0]int  `json:"z,omitempty"`
	B bool    `json:"b,omitempty"`
}

type scopeLegacyString struct {
	A *int `json:"a,string"`
	B bool `json:"b,string"`
}

var marshalOptProbes = []struct {
	name string
	v    any
	opt  func(bool) json.Options
}{
	{"v1.FormatDurationAsNano", time.Duration(1500), jsonv1.FormatDurationAsNano},
	{"v1.FormatByteArrayAsArray", [3]byte{1, 2, 3}, jsonv1.FormatByteArrayAsArray},
	{"v1.FormatBytesWithLegacySemantics", []scopeNamedByte{1, 2}, jsonv1.FormatBytesWithLegacySemantics},
	{"v1.OmitEmptyWithLegacySemantics", scopeLegacyOmit{P: new(string)}, jsonv1.OmitEmptyWithLegacySemantics},
	{"v1.StringifyWithLegacySemantics", scopeLegacyString{A: new(int), B: true}, jsonv1.StringifyWithLegacySemantics},
	{"v1.ReportErrorsWithLegacySemantics", map[string]any{"a": make(chan int)}, jsonv1.ReportErrorsWithLegacySemantics},
	{"StringifyNumbers", []any{5, 1.5, uint8(3)}, json.StringifyNumbers},
	{"FormatNilSliceAsNull", struct{ S []int }{}, json.FormatNilSliceAsNull},
	{"FormatNilMapAsNull", struct{ M map[string]int }{}, json.FormatNilMapAsNull},
	{"OmitZeroStructFields", struct{ A, B int }{B: 1}, json.OmitZeroStructFields},
	{"EscapeForHTML", "<&>", jsontext.EscapeForHTML},
	{"EscapeForJS", "a\u2028b", jsontext.EscapeForJS},
	{"SpaceAfterColon", map[string][]int{"a": {1, 2}}, jsontext.SpaceAfterColon},
	{"SpaceAfterComma", map[string][]int{"a": {1, 2}}, jsontext.SpaceAfterComma},
	{"Multiline", map[string][]int{"a": {1, 2}}, jsontext.Multiline},
	{"AllowInvalidUTF8", "a\xffb", jsontext.AllowInvalidUTF8},
	{"PreserveRawStrings", jsontext.Value(`"\u0041\/"`), jsontext.PreserveRawStrings},
	{"CanonicalizeRawInts", jsontext.Value(`[1.0e1,9007199254740993]`), jsontext.CanonicalizeRawInts},
	{"CanonicalizeRawFloats", jsontext.Value(`[1.0e1,0.10]`), jsontext.CanonicalizeRawFloats},
	{"ReorderRawObjects", jsontext.Value(`{"b":1,"a":2}`), jsontext.ReorderRawObjects},
}

var unmarshalOptProbes = []struct {
	name string
	text string
	new  func() any
	opt  func(bool) json.Options
}{
	{"ParseTimeWithLooseRFC3339", `"2000-01-01T01:02:03,5Z"`, func() any { return new(time.Time) }, jsonv1.ParseTimeWithLooseRFC3339},
	{"ParseBytesWithLooseRFC4648", `"AQID\r\n"`, func() any { return new([]byte) }, jsonv1.ParseBytesWithLooseRFC4648},
	{"UnmarshalArrayFromAnyLength", `[1,2]`, func() any { return new([3]int) }, jsonv1.UnmarshalArrayFromAnyLength},
	{"MergeWithLegacySemantics", `{"k":{"b":2}}`, func() any { return &map[string]map[string]int{"k": {"a": 1}} }, jsonv1.MergeWithLegacySemantics},
	{"MatchCaseInsensitiveNames", `{"A":1}`, func() any {
		return new(struct {
			a, Aa int
			B     int `json:"a"`
		})
	}, json.MatchCaseInsensitiveNames},
	{"RejectUnknownMembers", `{"zz":1}`, func() any { return new(struct{ A int }) }, json.RejectUnknownMembers},
	{"StringifyWithLegacySemantics", `{"A":"1"}`, func() any {
		return new(struct {
			A *int `json:",string"`
		})
	}, jsonv1.StringifyWithLegacySemantics},
	{"FormatByteArrayAsArray", `[1,2,3]`, func() any { return new([3]byte) }, jsonv1.FormatByteArrayAsArray},
	{"FormatDurationAsNano", `1000`, func() any { return new(time.Duration) }, jsonv1.FormatDurationAsNano},
}

type scopeNestInner struct{ N int }

// scopeNestOuter's methods make one scoped call with a non-boolean option and one
// call without options on the coder they were handed.
type scopeNestOuter struct {
	a, b    scopeNestInner
	present bool
}

func (o *scopeNestOuter) UnmarshalJSONFrom(dec *jsontext.Decoder) error {
	if _, err := dec.ReadToken(); err != nil {
		return err
	}
	f := json.UnmarshalFromFunc(func(dec *jsontext.Decoder, v *scopeNestInner) error {
		v.N = -1
		return dec.SkipValue()
	})
	if err := json.UnmarshalDecode(dec, &o.a, json.WithUnmarshalers(f)); err != nil {
		return err
	}
	if _, ok := json.GetOption(dec.Options(), json.WithUnmarshalers); ok {
		o.present = true
	}
	if err := json.UnmarshalDecode(dec, &o.b); err != nil {
		return err
	}
	_, err := dec.ReadToken()
	return err
}

func (o *scopeNestOuter) MarshalJSONTo(enc *jsontext.Encoder) error {
	if err := enc.WriteToken(jsontext.BeginArray); err != nil {
		return err
	}
	f := json.MarshalToFunc(func(enc *jsontext.Encoder, v scopeNestInner) error {
		return enc.WriteToken(jsontext.Int(-1))
	})
	if err := json.MarshalEncode(enc, scopeNestInner{N: 1}, json.WithMarshalers(f)); err != nil {
		return err
	}
	if _, ok := json.GetOption(enc.Options(), json.WithMarshalers); ok {
		o.present = true
	}
	if err := json.MarshalEncode(enc, scopeNestInner{N: 2}); err != nil {
		return err
	}
	return enc.WriteToken(jsontext.EndArray)
}
