package scen

import (
	"bufio"
	"bytes"
	"errors"
	"fmt"
	"io"

	json "github.com/go-json-experiment/json"
	"github.com/go-json-experiment/json/jsontext"

	"verifsim/core"
	"verifsim/gen"
	"verifsim/refjson"
)

// Reader kinds offered to the library.
const (
	rkPlain = iota
	rkBufio
	rkBytesBuffer
)

// DecEpisode is one (input, program, read schedule) run on a decoder. Several
// episodes share one Decoder through Reset.
type DecEpisode struct {
	Input      []byte        `json:"-"`
	InputQ     string        `json:"input"`
	AllowUTF8  bool          `json:"allow_invalid_utf8"`
	AllowDup   bool          `json:"allow_duplicate_names"`
	ReaderKind int           `json:"reader_kind"`
	BufioSize  int           `json:"bufio_size,omitempty"`
	Read       core.ReadPlan `json:"read"`
	Ops        string        `json:"ops"`  // T=ReadToken V=ReadValue S=SkipValue P=PeekKind
	Loop       byte          `json:"loop"` // op repeated after Ops until the stream ends (0: stop)
	MaxOps     int           `json:"max_ops"`
	Handoff    int           `json:"handoff"`     // op index at which a hand-off is attempted (-1: none)
	PeekFollow []int         `json:"peek_follow"` // per faulted PeekKind: 0 retry PeekKind, 1 collect cached error via ReadToken, 2 via ReadValue
	PtrEvery   int           `json:"ptr_every"`   // StackPointer is observed after every k-th call only (0: every call; <0: never before the end)
}

type DecPlan struct {
	Episodes []DecEpisode `json:"episodes"`
	// Sweep: besides the drawn schedule, re-run the first episode under EVERY
	// single cut position (and every pair of cuts for very short inputs).
	Sweep bool `json:"sweep_all_cuts"`
}

// Dec is the decoder scenario. Mode selects the generators' emphasis.
type Dec struct {
	Mode string // "c05", "c16", "c01"
}

func (sc *Dec) plan(t *core.Tape, env *Env) *DecPlan {
	p := &DecPlan{}
	ps := t.S("plan")
	n := 1
	if ps.Chance(1, 6) {
		n = 2 + ps.Draw(2)
	}
	for i := 0; i < n; i++ {
		p.Episodes = append(p.Episodes, sc.planEpisode(t, env, i))
	}
	if len(p.Episodes[0].Input) <= 96 {
		p.Sweep = ps.Chance(1, 4)
	}
	return p
}

func genInput(s *core.Stream, env *Env, allowUTF8, allowDup bool, mutP int) []byte {
	maxBytes := 1024
	switch s.Weighted(6, 3, 1) {
	case 1:
		maxBytes = 4096
	case 2:
		maxBytes = 8192
		if env.Thorough && s.Chance(1, 4) {
			maxBytes = 65536
		}
	}
	cfg := gen.JSONCfg{MaxBytes: maxBytes, MaxDepth: 2 + s.Draw(6)}
	// Ill-formed strings and duplicate names are generated whether or not they
	// are allowed: all oracles are relative to the options.
	cfg.InvalidUTF8 = s.Chance(1, 6)
	cfg.DupNames = true
	nvals := 1
	switch s.Weighted(6, 2, 1, 1) {
	case 1:
		nvals = 2
	case 2:
		nvals = 3 + s.Draw(6)
	case 3:
		nvals = 0
	}
	var in []byte
	for k := 0; k < nvals; k++ {
		v := gen.Text(s, cfg)
		in = append(in, v...)
		// separator between top-level values: numbers/literals need one
		switch s.Draw(3) {
		case 0:
			in = append(in, '\n')
		case 1:
			in = append(in, ' ')
		case 2:
			if len(v) > 0 && (v[len(v)-1] == '}' || v[len(v)-1] == ']' || v[len(v)-1] == '"') {
				// no separator
			} else {
				in = append(in, ' ')
			}
		}
	}
	if nvals == 0 && s.Bool() {
		in = append(in, "  \n"[:s.Draw(4)]...)
	}
	if s.Chance(1, 10) {
		in = gen.DupNameMutation(s, in)
	}
	if s.Chance(mutP, 8) {
		in = gen.Mutate(s, in)
		if s.Chance(1, 4) {
			in = gen.Mutate(s, in)
		}
	}
	return in
}

func (sc *Dec) planEpisode(t *core.Tape, env *Env, idx int) DecEpisode {
	lbl := fmt.Sprintf("ep%d/", idx)
	ps := t.S(lbl + "input")
	ep := DecEpisode{Handoff: -1}
	ep.AllowUTF8 = ps.Chance(1, 4)
	ep.AllowDup = ps.Chance(1, 4)
	mutP := 2
	if sc.Mode == "c01" || sc.Mode == "c16" {
		mutP = 4
	}
	ep.Input = genInput(ps, env, ep.AllowUTF8, ep.AllowDup, mutP)
	tower := (sc.Mode == "c01" || sc.Mode == "c20") && ps.Chance(1, 200)
	if tower {
		ep.Input = gen.Tower(ps)
	}

	// program
	os := t.S(lbl + "ops")
	switch os.Weighted(3, 3, 2, 4) {
	case 0:
		ep.Loop = 'T'
	case 1:
		ep.Loop = 'V'
	case 2:
		ep.Loop = 'T'
		n := os.Range(1, 12)
		ops := make([]byte, n)
		for i := range ops {
			ops[i] = "TVSP"[os.Weighted(4, 3, 2, 2)]
		}
		ep.Ops = string(ops)
	case 3:
		n := os.Range(1, 80)
		ops := make([]byte, n)
		for i := range ops {
			ops[i] = "TVSP"[os.Weighted(5, 2, 1, 2)]
		}
		ep.Ops = string(ops)
		ep.Loop = []byte{0, 'T', 'V', 'S'}[os.Draw(4)]
	}
	switch os.Weighted(5, 2, 2, 1) {
	case 1:
		ep.PtrEvery = 2 + os.Draw(6)
	case 2:
		ep.PtrEvery = 10 + os.Draw(60)
	case 3:
		ep.PtrEvery = -1
	}
	ep.MaxOps = 3000
	if env.Thorough {
		ep.MaxOps = 30000
	}
	if tower {
		// token/value splits: k containers opened by tokens, then values
		ep.MaxOps = 45000
		switch os.Draw(4) {
		case 0:
			ep.Ops, ep.Loop = "", 'T'
		case 1:
			ep.Ops, ep.Loop = "", 'V'
		case 2:
			ep.Ops, ep.Loop = "", 'S'
		case 3:
			k := []int{1, 2, 9990, 9997, 9998, 9999, 10000}[os.Draw(7)]
			b := make([]byte, k)
			for i := range b {
				b[i] = 'T'
			}
			ep.Ops = string(b)
			ep.Loop = "VST"[os.Draw(3)]
			ep.PtrEvery = -1
		}
	}

	// read schedule
	rs := t.S(lbl + "reader")
	n := len(ep.Input)
	switch rs.Weighted(8, 2, 1) {
	case 0:
		ep.ReaderKind = rkPlain
	case 1:
		ep.ReaderKind = rkBufio
		ep.BufioSize = 16 + rs.Draw(100)
	case 2:
		ep.ReaderKind = rkBytesBuffer
	}
	switch rs.Weighted(2, 3, 3, 2, 3, 2) {
	case 0: // exactly what is asked
	case 1: // 1 byte at a time
		ep.Read.MaxChunk = 1
	case 2: // single cut
		ep.Read.Cuts = []int{rs.Draw(n + 1)}
	case 3: // two cuts
		ep.Read.Cuts = []int{rs.Draw(n + 1), rs.Draw(n + 1)}
	case 4: // random sizes <= m
		m := 1 + rs.Draw(40)
		if rs.Chance(1, 3) {
			m = 1 + rs.Draw(700)
		}
		k := 8 + rs.Draw(64)
		for i := 0; i < k; i++ {
			ep.Read.Sizes = append(ep.Read.Sizes, 1+rs.Draw(m))
		}
		ep.Read.MaxChunk = m
	case 5: // many cuts
		k := 3 + rs.Draw(10)
		for i := 0; i < k; i++ {
			ep.Read.Cuts = append(ep.Read.Cuts, rs.Draw(n+1))
		}
	}
	ep.Read.EOFWithData = rs.Chance(1, 3)
	if rs.Chance(1, 3) { // empty reads
		k := 1 + rs.Draw(6)
		for i := 0; i < k; i++ {
			ep.Read.Events = append(ep.Read.Events, core.ReadEvt{Call: rs.Draw(40), Kind: core.REmpty})
		}
	}
	// faults (separate run class: ~40% of runs are fault-free)
	fs := t.S(lbl + "faults")
	{
		w := []int{4, 4, 2}
		if sc.Mode != "c05" && sc.Mode != "c20" {
			w = []int{7, 2, 1} // verdict and positions must also hold when faults are retried
		}
		switch fs.Weighted(w...) {
		case 1: // sparse
			k := 1 + fs.Draw(2)
			for i := 0; i < k; i++ {
				sc.addFault(fs, &ep, n)
			}
		case 2: // dense
			k := 3 + fs.Draw(6)
			for i := 0; i < k; i++ {
				sc.addFault(fs, &ep, n)
			}
		}
		k := 8
		for i := 0; i < k; i++ {
			ep.PeekFollow = append(ep.PeekFollow, fs.Draw(3))
		}
		if fs.Chance(1, 6) {
			ep.Handoff = fs.Draw(len(ep.Ops) + 6)
		}
	}
	return ep
}

func (sc *Dec) addFault(fs *core.Stream, ep *DecEpisode, n int) {
	switch fs.Weighted(5, 3, 2) {
	case 0: // offset-keyed: cut at k, fail when the reader is asked to go past k
		k := fs.Draw(n + 1)
		ep.Read.Cuts = append(ep.Read.Cuts, k)
		ep.Read.FaultAt = append(ep.Read.FaultAt, k)
	case 1: // call-indexed transient error
		ep.Read.Events = append(ep.Read.Events, core.ReadEvt{Call: fs.Draw(30), Kind: core.RErr})
	case 2: // error together with data (must be absorbed)
		ep.Read.Events = append(ep.Read.Events, core.ReadEvt{Call: fs.Draw(30), Kind: core.RDataErr})
	}
}

func decOpts(ep *DecEpisode) []jsontext.Options {
	return []jsontext.Options{jsontext.AllowInvalidUTF8(ep.AllowUTF8), jsontext.AllowDuplicateNames(ep.AllowDup)}
}

// decStep is what one call returned plus the observers after it.
type decStep struct {
	Op   byte
	Kind byte
	Str  string
	Val  []byte
	Err  errClass
	Obs  obs

	PtrObserved bool
}

func (s decStep) String() string {
	return fmt.Sprintf("%c -> kind=%q str=%s val=%s err=%v | %v", s.Op, s.Kind, clip([]byte(s.Str), 40), clip(s.Val, 40), s.Err, s.Obs)
}

func decCall(d *jsontext.Decoder, op byte) decStep {
	st := decStep{Op: op}
	var err error
	switch op {
	case 'T':
		var tok jsontext.Token
		tok, err = d.ReadToken()
		if err == nil {
			st.Kind = byte(tok.Kind())
			if st.Kind == '"' || st.Kind == '0' {
				st.Str = tok.String()
			}
		}
	case 'V':
		var v jsontext.Value
		v, err = d.ReadValue()
		if err == nil {
			st.Val = append([]byte(nil), v...)
			st.Kind = byte(v.Kind())
		}
	case 'S':
		err = d.SkipValue()
	case 'P':
		st.Kind = byte(d.PeekKind())
	}
	st.Err = classify(err)
	return st
}

func nextOp(ep *DecEpisode, i int) byte {
	if i < len(ep.Ops) {
		return ep.Ops[i]
	}
	return ep.Loop
}

// runTwin executes the episode's program on the whole input in a bytes.Buffer.
func runTwin(ep *DecEpisode) []decStep {
	d := jsontext.NewDecoder(bytes.NewBuffer(append([]byte(nil), ep.Input...)), decOpts(ep)...)
	var steps []decStep
	errs := 0
	for i := 0; i < ep.MaxOps; i++ {
		op := nextOp(ep, i)
		if op == 0 {
			break
		}
		st := decCall(d, op)
		st.Obs = observe(d, d.InputOffset(), true)
		steps = append(steps, st)
		if st.Err.Kind != "" {
			errs++
			if errs >= 3 || st.Err.Kind == "EOF" {
				break
			}
		}
	}
	return steps
}

func (sc *Dec) Run(t *core.Tape, env *Env) (any, []core.Violation) {
	p := sc.plan(t, env)
	var viols []core.Violation
	var d *jsontext.Decoder
	for i := range p.Episodes {
		ep := &p.Episodes[i]
		if env.WantPlan {
			ep.InputQ = string(ep.Input)
		}
		v := sc.runEpisode(ep, &d, env, i)
		viols = append(viols, v...)
		if len(v) > 0 {
			break
		}
	}
	if p.Sweep && len(viols) == 0 {
		// exhaustive over cut positions (fault-free): every split of the input
		// into two reads, and into three for very short inputs
		ep := p.Episodes[0]
		n := len(ep.Input)
		ep.Handoff = -1
		ep.ReaderKind = rkPlain
		runs := 0
		for c := 0; c <= n && len(viols) == 0; c++ {
			e2 := ep
			e2.Read = core.ReadPlan{Cuts: []int{c}, EOFWithData: ep.Read.EOFWithData}
			var dd *jsontext.Decoder
			viols = append(viols, sc.runEpisode(&e2, &dd, env, 100+c)...)
			runs++
		}
		if n <= 20 {
			for c1 := 0; c1 <= n && len(viols) == 0; c1++ {
				for c2 := c1 + 1; c2 <= n && len(viols) == 0; c2++ {
					e2 := ep
					e2.Read = core.ReadPlan{Cuts: []int{c1, c2}}
					var dd *jsontext.Decoder
					viols = append(viols, sc.runEpisode(&e2, &dd, env, 1000)...)
					runs++
				}
			}
		}
		if len(viols) > 0 {
			// make the failing cut part of the rendered plan
			viols[len(viols)-1].Detail += " [found by the exhaustive cut sweep]"
		}
		env.Stats.ProbeN("dec/exhaustive-cut-sweep-executions", runs)
		env.Stats.Probe("dec/exhaustive-cut-sweep-inputs")
	}
	return p, viols
}

func (sc *Dec) runEpisode(ep *DecEpisode, dp **jsontext.Decoder, env *Env, epIdx int) (viols []core.Violation) {
	st := env.Stats
	in := ep.Input
	twin := runTwin(ep)
	// report records a violation and tells the caller whether to stop the run
	// (known findings are recorded but do not stop it, so they mask nothing).
	report := func(prop, class, site, f string, a ...any) bool {
		v := core.Violationf(prop, class, site, f, a...)
		viols = append(viols, v)
		return v.Property == env.Prop && !env.Known[v.Key()]
	}

	// Independent oracle.
	var ref *refjson.Result
	var model *refjson.Model
	useRef := env.Prop == "C16" || env.Prop == "C01" || sc.Mode == "c16" || sc.Mode == "c01"
	ti := 0
	if useRef {
		o := refjson.Opts{AllowInvalidUTF8: ep.AllowUTF8, AllowDuplicateNames: ep.AllowDup}
		ref = refjson.Scan(in, o)
		model = refjson.NewModel(o)
		if ref.Ambiguous {
			useRef = false
			st.Probe("ref/ambiguous-skipped")
		}
	}

	// Build the reader chain.
	sim := core.NewSimReader(in, ep.Read)
	var src io.Reader = sim
	var bb *bytes.Buffer
	switch ep.ReaderKind {
	case rkBufio:
		src = bufio.NewReaderSize(sim, ep.BufioSize)
	case rkBytesBuffer:
		bb = bytes.NewBuffer(append([]byte(nil), in...))
		src = bb
	}
	tap := &core.Tap{R: src}
	var rd io.Reader = tap
	if bb != nil {
		rd = bb // the fast path needs the concrete type
	}
	if *dp == nil {
		*dp = jsontext.NewDecoder(rd, decOpts(ep)...)
	} else {
		(*dp).Reset(rd, decOpts(ep)...)
		st.Probe("dec/reset-reuse")
	}
	d := *dp
	var base int64     // absolute offset of the current decoder's stream start
	var idx0Base int64 // top-level values consumed before the current decoder

	conservation := func(where string) bool {
		off := d.InputOffset()
		un := d.UnreadBuffer()
		abs := base + off
		if abs < 0 || abs+int64(len(un)) > int64(len(in)) || !bytes.Equal(un, in[abs:abs+int64(len(un))]) {
			if report("C05", "C05/conservation/unread-mismatch", where, "InputOffset=%d(+%d) UnreadBuffer=%s does not match input there", off, base, clip(un, 40)) {
				return false
			}
		}
		if bb != nil && base == 0 {
			if bb.Len()+int(off)+len(un) != len(in) && !(off == 0 && len(un) == 0 && bb.Len() == len(in)) {
				if report("C05", "C05/conservation/bytes-lost", where, "bytes.Buffer: remaining=%d + InputOffset=%d + unread=%d != %d", bb.Len(), off, len(un), len(in)) {
					return false
				}
			}
		} else if int64(tap.N) != off+int64(len(un)) {
			if report("C05", "C05/conservation/bytes-lost", where, "taken from reader=%d but InputOffset=%d + len(UnreadBuffer)=%d", tap.N, off, len(un)) {
				return false
			}
		}
		return true
	}

	rebase := func(o obs) obs {
		o.Off += base
		if len(o.Idx) > 0 {
			o.Idx = append([]idxEntry(nil), o.Idx...)
			o.Idx[0].N += idx0Base
		}
		return o
	}

	// Sparse pointer observation: StackPointer has a side effect inside the
	// library (it copies pending names out of the read buffer), so asking
	// after every call would hide bugs in that bookkeeping.
	wantPtr := func(i int) bool {
		switch {
		case ep.PtrEvery == 0:
			return true
		case ep.PtrEvery < 0:
			return i == len(twin)-1
		}
		return i%ep.PtrEvery == ep.PtrEvery-1 || i == len(twin)-1
	}
	checkTwin := env.Prop != "C16" && env.Prop != "C01"
	var lastGot decStep
	peekFaults := 0
	nFaultAttempts := 0
	firstErrSeen := false
	for i := 0; i < len(twin); i++ {
		op := twin[i].Op
		want := twin[i]

		// hand-off at a top-level call boundary
		if i == ep.Handoff && d.StackDepth() == 0 && bb == nil {
			un := append([]byte(nil), d.UnreadBuffer()...)
			base += d.InputOffset()
			_, n0 := d.StackIndex(0)
			idx0Base += n0
			tap = &core.Tap{R: io.MultiReader(bytes.NewReader(un), src)}
			d = jsontext.NewDecoder(tap, decOpts(ep)...)
			*dp = d
			st.Probe("dec/handoff")
			st.Nontrivial = true
		}

		var got decStep
		for attempt := 0; ; attempt++ {
			before := rebase(observe(d, d.InputOffset(), false))
			f0 := tap.FaultsDelivered
			sim.SuppressFault = op == 'S'
			got = decCall(d, op)
			sim.SuppressFault = false
			st.Steps++
			delivered := tap.FaultsDelivered > f0
			// A PeekKind that reports 0 where the fault-free run reports a kind
			// was hit by the fault (it caches the error for the next read call);
			// if the fault-free run reports 0 as well, a real error is pending and
			// whichever error got cached surfaces at the next read call, where the
			// retry rule below applies again.
			faulted := got.Err.Kind == "injected" || (op == 'P' && got.Kind == 0 && delivered && want.Kind != 0)
			if delivered && !faulted {
				// The call met the transient error and still returned something
				// else (e.g. a syntax error that was already certain). That is only
				// acceptable if it is exactly what the fault-free run returns, which
				// the comparison with the twin below decides.
				st.Probe("dec/fault-met-but-call-completed")
			}
			if op == 'S' && got.Err.Kind == "injected" {
				// no retry promise for SkipValue: abandon the episode
				st.Probe("dec/skipvalue-interrupted-abandoned")
				return
			}
			if !faulted {
				break
			}
			nFaultAttempts++
			st.Nontrivial = true
			after := rebase(observe(d, d.InputOffset(), false))
			if !before.equal(after) {
				if report("C05", "C05/fault-changed-state", string(op), "op %d %c failed with the injected error but observers changed: before %v after %v", i, op, before, after) {
					return
				}
			}
			if !conservation(fmt.Sprintf("after-fault/%c", op)) {
				return
			}
			if attempt > 40 {
				if report("C20", "C20/livelock/read-retry", string(op), "op %d %c still failing after %d retries with only %d faults scripted", i, op, attempt, len(ep.Read.FaultAt)+len(ep.Read.Events)) {
					return
				}
			}
			if op == 'P' {
				follow := 0
				if peekFaults < len(ep.PeekFollow) {
					follow = ep.PeekFollow[peekFaults]
				}
				peekFaults++
				if follow != 0 {
					cop := byte('T')
					if follow == 2 {
						cop = 'V'
					}
					c := decCall(d, cop)
					st.Steps++
					if c.Err.Kind != "injected" {
						if report("C05", "C05/peek-cached-error", string(cop), "op %d: PeekKind hit a transient error; the following %c returned %v instead of the cached error", i, cop, c) {
							return
						}
					}
					after2 := rebase(observe(d, d.InputOffset(), false))
					if !before.equal(after2) {
						if report("C05", "C05/fault-changed-state", "P+"+string(cop), "op %d: collecting the cached peek error changed observers: before %v after %v", i, before, after2) {
							return
						}
					}
					st.Probe("dec/peek-fault-collected")
				} else {
					st.Probe("dec/peek-fault-retried")
				}
			}
		}
		withPtr := wantPtr(i)
		got.PtrObserved = withPtr
		got.Obs = rebase(observe(d, d.InputOffset(), withPtr))
		got.Err = got.Err.rebase(base)
		if !withPtr {
			want.Obs.Ptr = ""
		}

		// --- C05: equality with the whole-slice twin
		twinCheck := func() (stop bool) {
			if got.Kind != want.Kind || got.Str != want.Str || !bytes.Equal(got.Val, want.Val) {
				if report("C05", "C05/trace-divergence/result", string(op), "op %d: chunked %v ; whole-slice %v", i, got, want) {
					return true
				}
			}
			if got.Err != want.Err {
				cls := "C05/trace-divergence/error"
				if got.Err.Kind == want.Err.Kind && got.Err.Off == want.Err.Off && got.Err.Sent == want.Err.Sent {
					cls = "C05/trace-divergence/error-pointer"
				}
				site := string(op)
				if firstErrSeen {
					site += "/after-error"
				}
				if report("C05", cls, site, "op %d: chunked %v ; whole-slice %v", i, got, want) {
					return true
				}
			}
			if !got.Obs.equal(want.Obs) {
				cls := "C05/trace-divergence/observers"
				if got.Obs.Ptr != want.Obs.Ptr {
					cls = "C05/trace-divergence/pointer"
				}
				site := string(op)
				if firstErrSeen {
					site += "/after-error"
				}
				if report("C05", cls, site, "op %d: chunked %v ; whole-slice %v", i, got, want) {
					return true
				}
			}
			if op == 'V' && got.Err.Kind == "" {
				end := got.Obs.Off
				start := end - int64(len(got.Val))
				if start < 0 || end > int64(len(in)) || !bytes.Equal(got.Val, in[start:end]) {
					if report("C05", "C05/value-not-input-span", "V", "op %d: value %s is not input[%d:%d]", i, clip(got.Val, 40), start, end) {
						return true
					}
				}
			}
			if !conservation(string(op)) {
				return true
			}
			return false
		}
		if checkTwin && twinCheck() {
			return
		}
		lastGot = got
		if got.Err.Kind != "" {
			firstErrSeen = true
		}

		// --- C16 / C01: independent oracle
		if useRef {
			if v := sc.refCheck(ep, ref, model, &ti, i, got, firstErrSeen, st); v != nil {
				viols = append(viols, *v)
				if !env.Known[v.Key()] {
					return
				}
			}
			if got.Err.Kind != "" {
				useRef = false // after the first error the model no longer tracks the calls
			}
		}
	}

	// C01, the slice entry points (pure functions of the bytes; checked on the
	// same inputs): IsValid and Unmarshal into any succeed iff the bytes are
	// exactly one valid text.
	if ref != nil && !ref.Ambiguous && (sc.Mode == "c01" || env.Prop == "C01") && epIdx < 100 {
		one := ref.Status == refjson.Complete && len(ref.Values) == 1
		if got := jsontext.Value(in).IsValid(decOpts(ep)...); got != one {
			if report("C01", "C01/isvalid-verdict", "IsValid", "IsValid=%v but the reference says exactly-one-valid-text=%v (status=%d values=%d E=%d) input=%s", got, one, ref.Status, len(ref.Values), ref.E, clip(in, 160)) {
				return
			}
		}
		if ref.MaxDepthSeen < 5000 {
			var x any
			err := json.Unmarshal(in, &x, jsontext.AllowInvalidUTF8(ep.AllowUTF8), jsontext.AllowDuplicateNames(ep.AllowDup))
			overflow := false
			if one && err != nil {
				// the only admissible reason is a number that overflows float64
				var se *json.SemanticError
				overflow = errors.As(err, &se)
			}
			if (err == nil) != one && !overflow {
				if report("C01", "C01/unmarshal-any-verdict", "Unmarshal", "Unmarshal into any: err=%v but exactly-one-valid-text=%v input=%s", classify(err), one, clip(in, 160)) {
					return
				}
			}
		}
		st.Probe("c01/slice-entry-points-checked")
	}

	// C01 verdict for pure loops: the loop must end, and end in io.EOF iff the
	// stream is a concatenation of valid texts.
	if ref != nil && !ref.Ambiguous && len(ep.Ops) == 0 && ep.Loop != 0 && len(twin) < ep.MaxOps {
		last := lastGot
		gotEOF := last.Err.Kind == "EOF"
		if gotEOF != (ref.Status == refjson.Complete) {
			if report("C01", "C01/verdict", string(ep.Loop)+"-loop", "loop of %c ended with %v but reference status=%d (0 complete,1 truncated,2 invalid) E=%d", ep.Loop, last.Err, ref.Status, ref.E) {
				return
			}
		}
		if gotEOF && last.Obs.Depth != 0 {
			if report("C01", "C01/eof-inside-value", string(ep.Loop)+"-loop", "io.EOF reported at depth %d", last.Obs.Depth) {
				return
			}
		}
		st.Probe(fmt.Sprintf("c01/verdict-checked/status%d", ref.Status))
	}

	// evidence: what fired
	st.Fault("read/short", sim.NShort)
	st.Fault("read/one-byte", sim.NOneByte)
	st.Fault("read/empty", sim.NEmpty)
	st.Fault("read/transient-error", sim.NErr)
	st.Fault("read/error-with-data", sim.NDataErr)
	st.Fault("read/data-with-EOF", sim.NDataEOF)
	st.Fault("read/bare-EOF", sim.NBareEOF)
	st.ProbeN("dec/buffer-grew(read asked for more than ever before)", sim.GrowSeen)
	st.ProbeN("dec/faulted-attempts", nFaultAttempts)
	if sim.NShort+sim.NEmpty+sim.NErr+sim.NDataErr > 0 {
		st.Nontrivial = true
	}
	// signature: reader kind, capacity class, cut classes relative to token kinds, fault kinds, op 3-grams
	st.SigAdd(uint64(ep.ReaderKind), uint64(bitsLen(sim.MaxAsk)), uint64(sim.NErr), uint64(sim.NEmpty), uint64(sim.NDataErr), uint64(epIdx))
	for _, c := range ep.Read.Cuts {
		st.SigAdd(uint64(byteClass(in, c)), uint64(bitsLen(c)))
	}
	for i := 0; i+2 < len(twin) && i < 40; i++ {
		st.SigAdd(uint64(twin[i].Op)<<16 | uint64(twin[i+1].Op)<<8 | uint64(twin[i+2].Op))
	}
	st.SigAdd(uint64(len(twin)), hashBytes([]byte(twin[len(twin)-1].Err.Kind)))
	return
}

func bitsLen(n int) int {
	k := 0
	for n > 0 {
		k++
		n >>= 1
	}
	return k
}

// byteClass classifies the byte at a cut position (what kind of lexeme it splits).
func byteClass(in []byte, c int) int {
	if c <= 0 || c >= len(in) {
		return 0
	}
	b := in[c]
	switch {
	case b == '"':
		return 1
	case b == '\\':
		return 2
	case b >= '0' && b <= '9' || b == '-' || b == '.' || b == 'e' || b == 'E' || b == '+':
		return 3
	case b == ' ' || b == '\n' || b == '\t' || b == '\r':
		return 4
	case b == '{' || b == '}' || b == '[' || b == ']':
		return 5
	case b == ',' || b == ':':
		return 6
	case b >= 0x80:
		return 7
	}
	return 8
}

// refCheck compares one call with the independent model (C16 positions on
// accepted input, C16 error relation and C01 verdict on rejected input).
func (sc *Dec) refCheck(ep *DecEpisode, ref *refjson.Result, m *refjson.Model, tip *int, i int, got decStep, _ bool, st *core.Stats) *core.Violation {
	in := ep.Input
	ti := *tip
	mk := func(prop, class, site, f string, a ...any) *core.Violation {
		v := core.Violationf(prop, class, site, f, a...)
		return &v
	}
	tokName := func(t refjson.Tok) string {
		if t.Kind == '"' && m.NeedName() {
			s, _ := refjson.Unquote(in[t.Start:t.End])
			return s
		}
		return ""
	}
	normKind := func(k byte) byte {
		if k == 't' || k == 'f' {
			return k
		}
		return k
	}
	// Determine what the model expects of this call.
	const (
		expOK = iota
		expInputErr
		expIllegal
		expDontCare
	)
	exp := expOK
	tokenPath := got.Op == 'T'
	var endTok int // index one past the last token consumed
	switch got.Op {
	case 'P':
		if ti < len(ref.Toks) {
			if got.Kind != normKind(ref.Toks[ti].Kind) {
				return mk("C16", "C16/peek-kind", "P", "op %d: PeekKind=%q but next token is %q at %d", i, got.Kind, ref.Toks[ti].Kind, ref.Toks[ti].Start)
			}
		}
		// PeekKind does not move the observers.
		if v := sc.obsCheck(m, ref, ti, i, got, mk); v != nil {
			return v
		}
		return nil
	case 'T':
		if ti >= len(ref.Toks) {
			exp = expInputErr
		} else {
			endTok = ti + 1
		}
	case 'V', 'S':
		if ti >= len(ref.Toks) {
			exp = expInputErr
		} else {
			switch ref.Toks[ti].Kind {
			case '}', ']':
				exp = expIllegal
			case '{', '[':
				d := 0
				j := ti
				for ; j < len(ref.Toks); j++ {
					switch ref.Toks[j].Kind {
					case '{', '[':
						d++
					case '}', ']':
						d--
					}
					if d == 0 {
						break
					}
				}
				if j >= len(ref.Toks) {
					exp = expInputErr
					if got.Op == 'S' {
						// SkipValue of a composite is a loop of ReadToken: when the
						// input fails inside it, the tokens before the failure have
						// been consumed (the observers must say so).
						for ; ti < len(ref.Toks); ti++ {
							m.Apply(ref.Toks[ti].Kind, tokName(ref.Toks[ti]))
						}
						*tip = ti
						tokenPath = true
					}
				} else {
					endTok = j + 1
				}
			default:
				endTok = ti + 1
			}
		}
	}
	switch exp {
	case expIllegal:
		if got.Err.Kind == "" {
			return mk("C16", "C16/illegal-call-accepted", string(got.Op), "op %d: %c at a closing delimiter succeeded", i, got.Op)
		}
		return sc.obsCheck(m, ref, ti, i, got, mk)
	case expInputErr:
		if got.Err.Kind == "" {
			return mk("C01", "C01/accepted-invalid", string(got.Op), "op %d: %c succeeded (%v) but the reference finds no further valid token/value (status=%d E=%d)", i, got.Op, got, ref.Status, ref.E)
		}
		switch ref.Status {
		case refjson.Complete:
			if got.Err.Kind != "EOF" {
				return mk("C01", "C01/no-eof-at-boundary", string(got.Op), "op %d: stream ends at a value boundary but %c returned %v", i, got.Op, got.Err)
			}
		case refjson.Truncated:
			if got.Err.Kind == "EOF" {
				return mk("C01", "C01/eof-inside-value", string(got.Op), "op %d: io.EOF although the stream stops inside a value (truncated at %d)", i, ref.TruncStart)
			}
			if got.Err.Kind == "syntactic" && got.Err.Off > int64(len(in)) {
				return mk("C16", "C16/error-offset", string(got.Op)+"/truncated", "op %d: ByteOffset %d beyond the %d input bytes", i, got.Err.Off, len(in))
			}
			st.Probe("c16/truncated-error-checked")
		case refjson.Invalid:
			if got.Err.Kind == "EOF" {
				return mk("C01", "C01/eof-on-invalid", string(got.Op), "op %d: io.EOF on invalid input (E=%d)", i, ref.E)
			}
			if got.Err.Kind != "syntactic" {
				return mk("C16", "C16/error-type", string(got.Op), "op %d: invalid input reported as %v", i, got.Err)
			}
			path := "token-path"
			if !tokenPath {
				path = "value-path"
			}
			if got.Err.Off < int64(ref.S) || got.Err.Off > int64(ref.E) {
				site := path
				if got.Err.Off > int64(ref.E) && tokenPath && m.NeedName() {
					site = "ReadToken/name-position/malformed-lexeme"
				}
				return mk("C16", "C16/error-offset", site, "op %d %c: ByteOffset=%d outside [S=%d,E=%d] (token at %d) input=%s", i, got.Op, got.Err.Off, ref.S, ref.E, ref.T, clip(in, 120))
			}
			okPtr := got.Err.Ptr == ref.ContainerPtr || (ref.HasSlot && got.Err.Ptr == ref.SlotPtr)
			if ref.ErrKind == refjson.ErrDupName {
				okPtr = got.Err.Ptr == ref.SlotPtr
				if got.Err.Sent != "dupname" {
					return mk("C16", "C16/dupname-sentinel", path, "op %d: duplicate name at %d reported as %v", i, ref.T, got.Err)
				}
			}
			if !okPtr {
				return mk("C16", "C16/error-pointer", path, "op %d %c: JSONPointer=%q, want container %q or slot %q(%v) E=%d input=%s", i, got.Op, got.Err.Ptr, ref.ContainerPtr, ref.SlotPtr, ref.HasSlot, ref.E, clip(in, 120))
			}
			st.Probe("c16/rejected-input-relation-checked/" + path)
		}
		return sc.obsCheck(m, ref, ti, i, got, mk)
	}
	// expOK
	if got.Err.Kind != "" {
		return mk("C01", "C01/rejected-valid", string(got.Op), "op %d: %c returned %v but tokens %d..%d are valid per the reference (next at %d)", i, got.Op, got.Err, ti, endTok, ref.Toks[ti].Start)
	}
	t0 := ref.Toks[ti]
	switch got.Op {
	case 'T':
		if got.Kind != t0.Kind {
			return mk("C16", "C16/token-kind", "T", "op %d: token kind %q, reference %q at %d", i, got.Kind, t0.Kind, t0.Start)
		}
		m.Apply(t0.Kind, tokName(t0))
	default:
		m.ApplyWholeValue(t0.Kind, tokName(t0))
		if got.Op == 'V' {
			if !bytes.Equal(got.Val, in[t0.Start:ref.Toks[endTok-1].End]) {
				return mk("C16", "C16/value-span", "V", "op %d: value %s, reference span [%d,%d)", i, clip(got.Val, 40), t0.Start, ref.Toks[endTok-1].End)
			}
		}
	}
	*tip = endTok
	return sc.obsCheck(m, ref, endTok, i, got, mk)
}

func (sc *Dec) obsCheck(m *refjson.Model, ref *refjson.Result, ti int, i int, got decStep, mk func(prop, class, site, f string, a ...any) *core.Violation) *core.Violation {
	wantOff := int64(0)
	if ti > 0 {
		wantOff = int64(ref.Toks[ti-1].End)
	}
	if got.Obs.Off != wantOff {
		return mk("C16", "C16/observer/offset", string(got.Op), "op %d: InputOffset=%d, reference %d", i, got.Obs.Off, wantOff)
	}
	if got.Obs.Depth != m.Depth() {
		return mk("C16", "C16/observer/depth", string(got.Op), "op %d: StackDepth=%d, reference %d", i, got.Obs.Depth, m.Depth())
	}
	for k, l := range idxLevels(m.Depth()) {
		kk, n := m.Index(l)
		if k < len(got.Obs.Idx) && (got.Obs.Idx[k].K != kk || got.Obs.Idx[k].N != n) {
			return mk("C16", "C16/observer/index", string(got.Op), "op %d: StackIndex(%d)=(%q,%d), reference (%q,%d)", i, l, got.Obs.Idx[k].K, got.Obs.Idx[k].N, kk, n)
		}
	}
	if m.Depth() <= 64 && got.PtrObserved {
		if p := m.Pointer(); got.Obs.Ptr != p {
			return mk("C16", "C16/observer/pointer", string(got.Op), "op %d: StackPointer=%q, reference %q", i, got.Obs.Ptr, p)
		}
	}
	return nil
}
