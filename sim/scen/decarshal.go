package scen

import (
	"bufio"
	"bytes"
	"errors"
	"fmt"
	"io"
	"reflect"
	"strconv"
	"strings"

	json "github.com/go-json-experiment/json"
	"github.com/go-json-experiment/json/jsontext"
	jsonv1 "github.com/go-json-experiment/json/v1"

	"verifsim/core"
	"verifsim/gen"
	"verifsim/peers"
	"verifsim/refjson"
)

// DecArshal: the unmarshal routes over a stream. UnmarshalRead(chunked) vs
// Unmarshal(bytes); UnmarshalDecode over a chunked stream vs the same over the
// whole slice and vs Unmarshal of each value span found by the reference
// scanner.

type tInner struct {
	K0 any            `json:"k0"`
	K1 string         `json:"k1"`
	K2 float64        `json:"k2"`
	K3 []any          `json:"k3"`
	K4 *tInner        `json:"k4"`
	K5 map[string]any `json:"k5"`
	K6 jsontext.Value `json:"k6"`
	K7 bool           `json:"k7"`
	K8 []int          `json:"k8"`
	K9 [2]any         `json:"k9"`
}

type tOuter struct {
	K0   *tInner                   `json:"k0"`
	K1   any                       `json:"k1"`
	K2   map[string]jsontext.Value `json:"k2"`
	K3   []tInner                  `json:"k3"`
	Rest map[string]jsontext.Value `json:",embed"`
}

type tFallbackValue struct {
	K0   any            `json:"k0"`
	K1   string         `json:"k1"`
	Rest jsontext.Value `json:",embed"`
}

type tFallbackAny struct {
	K0   *tFallbackValue `json:"k0"`
	Rest map[string]any  `json:",embed"`
}

type tNamedAny interface{}

var decTargets = []struct {
	Name string
	New  func() any
}{
	{"any", func() any { return new(any) }},
	{"map[string]any", func() any { return new(map[string]any) }},
	{"[]any", func() any { return new([]any) }},
	{"map[string]jsontext.Value", func() any { return new(map[string]jsontext.Value) }},
	{"jsontext.Value", func() any { return new(jsontext.Value) }},
	{"tOuter", func() any { return new(tOuter) }},
	{"tInner", func() any { return new(tInner) }},
	{"[]tInner", func() any { return new([]tInner) }},
	{"named-any", func() any { return new(tNamedAny) }},
	{"[]string", func() any { return new([]string) }},
	{"map[string]float64", func() any { return new(map[string]float64) }},
	{"tFallbackValue", func() any { return new(tFallbackValue) }},
	{"tFallbackAny", func() any { return new(tFallbackAny) }},
	{"[]tFallbackValue", func() any { return new([]tFallbackValue) }},
	{"map[string]tFallbackValue", func() any { return new(map[string]tFallbackValue) }},
	{"peers.U200(UnmarshalerFrom)", func() any { return new(peers.U200) }},
	{"[]peers.U200", func() any { return new([]peers.U200) }},
	{"map[string]*peers.U220", func() any { return new(map[string]*peers.U220) }},
	{"[]fmt.Stringer", func() any { return new([]fmt.Stringer) }},
	{"map[string]error", func() any { return new(map[string]error) }},
	{"struct{S fmt.Stringer;T []error}", func() any {
		return new(struct {
			S fmt.Stringer
			T []error
			U [2]fmt.Stringer
		})
	}},
}

type DecArshalPlan struct {
	Input      []byte        `json:"-"`
	InputQ     string        `json:"input"`
	AllowUTF8  bool          `json:"allow_invalid_utf8"`
	AllowDup   bool          `json:"allow_duplicate_names"`
	Target     int           `json:"target"`
	TargetName string        `json:"target_name"`
	Route      string        `json:"route"` // "read" (UnmarshalRead) or "decode" (UnmarshalDecode loop)
	ReaderKind int           `json:"reader_kind"`
	BufioSize  int           `json:"bufio_size,omitempty"`
	Read       core.ReadPlan `json:"read"`
	PreWarm    int           `json:"prewarm"` // earlier pooled calls (history for C03/C18 flavours)
	FromFunc   bool          `json:"unmarshal_from_func_for_any"`
	RejectFunc bool          `json:"functions_that_fail_before_reading,omitempty"` // with FromFunc: functions for *float64/*string/*bool that return an error without touching the decoder
	TypedType  string        `json:"typed_target,omitempty"`                       // a reflect-built random type; the input is Marshal of a random value of it

	typ      reflect.Type
	Legacy   bool  `json:"v1_default_options"` // DefaultOptionsV1 (legacy error semantics: semantic errors are not fatal)
	V1Ops    []int `json:"v1_ops,omitempty"`   // v1stream route: 0 Decode, 1 Token, 2 More, 3 InputOffset, 4 Buffered
	V1Number bool  `json:"v1_use_number,omitempty"`
	V1Strict bool  `json:"v1_disallow_unknown_fields,omitempty"`
	Noop     int   `json:"noop_opts"` // path-switching options that keep semantics: 1 AllowDuplicateNames on dup-free input, 2 declining Unmarshalers for any, 3 both
}

type DecArshal struct {
	Mode string // c05, c03
}

var errRejectedByUser = errors.New("rejected by user code")

// droppedWhileLocating recognises one specific, recorded defect (see
// known_findings.txt) so that it is reported under its own class and site and
// every other difference keeps being reported as before: user code rejected a
// value before reading it; to give that error a position the library peeks at
// the value, the peek met a transient read error, the error was dropped and the
// position computed from what happened to be buffered. Same error, same
// pointer, only the offset differs from the fault-free run.
func droppedWhileLocating(p *DecArshalPlan, faultsDelivered int, gerr, werr errClass) bool {
	return p.FromFunc && p.RejectFunc && faultsDelivered > 0 &&
		gerr.Kind == "semantic" && werr.Kind == "semantic" &&
		gerr.Ptr == werr.Ptr && gerr.Sent == werr.Sent && gerr.Off < werr.Off
}

func (sc *DecArshal) plan(t *core.Tape, env *Env) *DecArshalPlan {
	p := &DecArshalPlan{}
	ps := t.S("plan")
	p.AllowUTF8 = ps.Chance(1, 5)
	p.AllowDup = ps.Chance(1, 5)
	p.Route = []string{"read", "decode"}[ps.Draw(2)]
	if sc.Mode == "c05" && ps.Chance(1, 8) {
		p.Route = "v1stream"
		vs := t.S("v1ops")
		mix := [][]int{{1, 0, 0, 0, 0}, {3, 2, 2, 1, 1}, {1, 6, 3, 1, 1}, {0, 1, 0, 0, 0}}[vs.Draw(4)]
		for i := 0; i < 80; i++ {
			p.V1Ops = append(p.V1Ops, vs.Weighted(mix...))
		}
		p.V1Number = vs.Chance(1, 4)
		p.V1Strict = vs.Chance(1, 6)
	}
	p.Target = ps.Draw(len(decTargets))
	p.TargetName = decTargets[p.Target].Name
	p.Legacy = ps.Chance(1, 5) // (c03: the meaning check is skipped under v1 semantics, route agreement is not)
	p.FromFunc = sc.Mode != "c03" && ps.Chance(1, 6)
	p.RejectFunc = p.FromFunc && ps.Chance(1, 3)
	is := t.S("input")
	mutP := 2
	if sc.Mode == "c03" {
		mutP = 0
	}
	p.Input = genInputCfg(is, env, mutP, p.Route == "read", sc.Mode == "c03")
	if sc.Mode != "c03" && ps.Chance(1, 3) {
		// every default unmarshaler under chunking and faults: a random type,
		// the marshalled form of random values of it as input
		g := &gen.GoGen{S: t.S("typed"), Cfg: gen.GoCfg{MaxDepth: 1 + ps.Draw(4), BigStructs: ps.Chance(1, 8)}}
		typ := g.Type(0)
		var in []byte
		n := 1
		if p.Route == "decode" {
			n = 1 + is.Draw(4)
		}
		ok := true
		for k := 0; k < n && ok; k++ {
			b, err := json.Marshal(g.Value(typ, 0).Interface(), json.Deterministic(true))
			if err != nil {
				ok = false
				break
			}
			in = append(in, b...)
			in = append(in, '\n')
		}
		if ok {
			if is.Chance(1, 4) {
				in = gen.Mutate(is, in)
			}
			p.Input, p.typ, p.TypedType = in, typ, clipStr(typ.String(), 300)
			p.TargetName = "typed"
			p.AllowUTF8, p.AllowDup, p.FromFunc = false, false, false
		}
	}
	if sc.Mode == "c03" {
		// untyped targets, valid duplicate-free texts, strings from colliding
		// families repeated across values, and semantics-preserving options
		// that switch the internal route
		p.AllowUTF8, p.AllowDup = false, false
		p.Target = []int{0, 1, 2, 8}[ps.Draw(4)]
		p.TargetName = decTargets[p.Target].Name
		p.Noop = ps.Draw(4)
		if ps.Chance(1, 6) {
			p.Route = "bbreuse"
		}
		var in []byte
		nvals := 1
		if p.Route == "decode" {
			nvals = 1 + is.Draw(6)
		}
		for k := 0; k < nvals; k++ {
			cfg := gen.JSONCfg{MaxBytes: []int{256, 1024, 4096}[is.Weighted(4, 3, 1)], MaxDepth: 2 + is.Draw(5), CollideNames: is.Chance(1, 2)}
			v := gen.Text(is, cfg)
			// steer the top-level kind toward the target
			switch p.TargetName {
			case "map[string]any":
				v = append(append([]byte(`{"w":`), v...), '}')
			case "[]any":
				v = append(append([]byte(`[`), v...), ']')
			}
			in = append(in, v...)
			in = append(in, " \n"[is.Draw(2)])
		}
		p.Input = in
	}
	n := len(p.Input)
	rs := t.S("reader")
	switch rs.Weighted(8, 2) {
	case 1:
		p.ReaderKind = rkBufio
		p.BufioSize = 16 + rs.Draw(100)
	}
	switch rs.Weighted(2, 3, 3, 2, 3) {
	case 1:
		p.Read.MaxChunk = 1
	case 2:
		p.Read.Cuts = []int{rs.Draw(n + 1)}
	case 3:
		p.Read.Cuts = []int{rs.Draw(n + 1), rs.Draw(n + 1)}
	case 4:
		m := 1 + rs.Draw(40)
		if rs.Chance(1, 3) {
			m = 1 + rs.Draw(700)
		}
		p.Read.MaxChunk = m
		k := 8 + rs.Draw(32)
		for i := 0; i < k; i++ {
			p.Read.Sizes = append(p.Read.Sizes, 1+rs.Draw(m))
		}
	}
	p.Read.EOFWithData = rs.Chance(1, 3)
	if rs.Chance(1, 4) {
		p.Read.Events = append(p.Read.Events, core.ReadEvt{Call: rs.Draw(20), Kind: core.REmpty})
	}
	fs := t.S("faults")
	if sc.Mode == "c05" && fs.Chance(1, 4) {
		k := fs.Draw(n + 1)
		p.Read.Cuts = append(p.Read.Cuts, k)
		p.Read.FaultAt = append(p.Read.FaultAt, k)
	}
	p.PreWarm = ps.Draw(3)
	return p
}

func genInputCfg(s *core.Stream, env *Env, mutP int, single bool, collide bool) []byte {
	in := genInput(s, env, false, false, mutP)
	_ = single
	_ = collide
	return in
}

func arshalOpts(utf8, dup bool) []json.Options {
	return []json.Options{jsontext.AllowInvalidUTF8(utf8), jsontext.AllowDuplicateNames(dup)}
}

// noopOpts are options that must not change the meaning but disable the
// specialised untyped decoder or the duplicate-name bookkeeping.
func noopOpts(k int) []json.Options {
	var os []json.Options
	if k&1 != 0 {
		os = append(os, jsontext.AllowDuplicateNames(true))
	}
	if k&2 != 0 {
		os = append(os, json.WithUnmarshalers(json.UnmarshalFromFunc(func(d *jsontext.Decoder, v *any) error { return errors.ErrUnsupported })))
	}
	return os
}

type uresult struct {
	Val any
	Err errClass
}

func (sc *DecArshal) Run(t *core.Tape, env *Env) (any, []core.Violation) {
	p := sc.plan(t, env)
	if env.WantPlan {
		p.InputQ = string(p.Input)
	}
	st := env.Stats
	var viols []core.Violation
	report := func(prop, class, site, f string, a ...any) bool {
		v := core.Violationf(prop, class, site, f, a...)
		viols = append(viols, v)
		return v.Property == env.Prop && !env.Known[v.Key()]
	}
	in := p.Input
	opts := arshalOpts(p.AllowUTF8, p.AllowDup)
	if p.Noop != 0 {
		opts = append(opts, noopOpts(p.Noop)...)
	}
	if p.Legacy {
		opts = append([]json.Options{jsonv1.DefaultOptionsV1()}, opts...)
	}
	if p.FromFunc && p.RejectFunc {
		// user code that rejects a value before reading anything: the position
		// the library synthesises for the error (start of the value that comes
		// next) must not depend on how much of the delimiters and whitespace in
		// front of that value happens to be buffered
		opts = append(opts, json.WithUnmarshalers(json.JoinUnmarshalers(
			json.UnmarshalFromFunc(func(d *jsontext.Decoder, v *float64) error { return errRejectedByUser }),
			json.UnmarshalFromFunc(func(d *jsontext.Decoder, v *string) error { return errRejectedByUser }),
			json.UnmarshalFromFunc(func(d *jsontext.Decoder, v *bool) error { return errRejectedByUser }),
			json.UnmarshalFromFunc(func(d *jsontext.Decoder, v *tInner) error { return errRejectedByUser }),
		)))
	} else if p.FromFunc {
		// a function that handles every value itself (the route that asks the
		// decoder whether the stream has ended before calling user code)
		opts = append(opts, json.WithUnmarshalers(json.UnmarshalFromFunc(func(d *jsontext.Decoder, v *any) error {
			val, err := d.ReadValue()
			if err != nil {
				return err
			}
			*v = string(val)
			return nil
		})))
	}
	tgt := decTargets[p.Target]
	if p.typ != nil {
		typ := p.typ
		tgt.Name = "typed"
		tgt.New = func() any { return reflect.New(typ).Interface() }
	}

	// history: a few earlier pooled calls so that the pooled decoder arrives used
	for i := 0; i < p.PreWarm; i++ {
		var x any
		json.Unmarshal([]byte(`{"prefix__x__suffix":[1,2,{"k0":"v"}],"k1":"prefix__y__suffix"}`), &x)
		json.UnmarshalRead(bytes.NewReader([]byte(`["warm",{"k0":1}]  `)), &x)
	}

	sim := core.NewSimReader(in, p.Read)
	var src io.Reader = sim
	if p.ReaderKind == rkBufio {
		src = bufio.NewReaderSize(sim, p.BufioSize)
	}
	tap := &core.Tap{R: src}

	switch p.Route {
	case "v1stream":
		// the v1 stream Decoder is a wrapper over jsontext.Decoder: the same
		// chunk-independence must hold for Decode/More/InputOffset
		type v1step struct {
			op   int
			val  string
			err  string
			off  int64
			more bool
		}
		errName := func(err error) string {
			if err == nil {
				return ""
			}
			if errors.Is(err, core.ErrInjected) {
				return "injected"
			}
			if err == io.EOF || err == io.ErrUnexpectedEOF {
				return err.Error()
			}
			n := reflect.TypeOf(err).String()
			var se *jsonv1.SyntaxError
			if errors.As(err, &se) {
				n += fmt.Sprint("@", se.Offset)
			}
			var te *jsonv1.UnmarshalTypeError
			if errors.As(err, &te) {
				n += fmt.Sprint("@", te.Offset, "/", te.Field)
			}
			return n
		}
		runV1 := func(r io.Reader, delivered func() []byte) ([]v1step, string) {
			d := jsonv1.NewDecoder(r)
			if p.V1Number {
				d.UseNumber()
			}
			if p.V1Strict {
				d.DisallowUnknownFields()
			}
			var steps []v1step
			failed := 0
			for _, op := range p.V1Ops {
				stp := v1step{op: op}
				switch op {
				case 0:
					x := tgt.New()
					err := d.Decode(x)
					stp.err = errName(err)
					if err == nil {
						stp.val = renderAny(x)
					} else {
						failed++
					}
				case 1:
					tok, err := d.Token()
					stp.err = errName(err)
					if err == nil {
						stp.val = fmt.Sprintf("%T:%v", tok, tok)
					} else {
						failed++
					}
				case 2:
					stp.more = d.More()
				case 3:
				default:
					// what was taken from the reader and not yet consumed: always the tail
					// of the bytes delivered so far (how much is buffered is unspecified)
					buf, _ := io.ReadAll(d.Buffered())
					if delivered != nil {
						got := delivered()
						if len(buf) > len(got) || !bytes.Equal(got[len(got)-len(buf):], buf) {
							return steps, fmt.Sprintf("after %d calls Buffered() holds %s, which is not the tail of the %d bytes delivered so far (%s)", len(steps), clip(buf, 60), len(got), clip(got, 60))
						}
					}
				}
				stp.off = d.InputOffset()
				steps = append(steps, stp)
				if failed >= 3 {
					break // errors are sticky for Decode; a few repetitions show that
				}
			}
			return steps, ""
		}
		p.Read.FaultAt, p.Read.Events = nil, nil // no retry promise documented for the v1 Decoder
		sim = core.NewSimReader(in, p.Read)
		got, bad := runV1(sim, func() []byte { return in[:sim.Pos] })
		if bad != "" {
			report("C05", "C05/v1-decoder-buffered-not-conserved", tgt.Name, "%s; input=%s", bad, clip(in, 200))
		}
		want, _ := runV1(bytes.NewReader(append([]byte(nil), in...)), nil)
		st.Steps += int64(len(got))
		if bad != "" {
		} else if len(got) != len(want) {
			report("C05", "C05/v1-decoder-stream-vs-whole/length", tgt.Name, "chunked: %d calls until the end, whole: %d; input=%s", len(got), len(want), clip(in, 200))
		} else {
			for k := range got {
				if got[k] != want[k] {
					report("C05", "C05/v1-decoder-stream-vs-whole", tgt.Name, "call #%d (op %d of Decode/Token/More/InputOffset/Buffered): chunked %+v ; whole %+v ; input=%s", k, got[k].op, got[k], want[k], clip(in, 200))
					break
				}
			}
		}
	case "bbreuse":
		// a caller-owned bytes.Buffer used for one message, Reset, refilled with
		// the text under test; an unrelated streaming call runs in between
		bb := new(bytes.Buffer)
		bb.WriteString(`{"earlier":["prefix__x__suffix","prefix__y__suffix",` + strings.Repeat(`"pad",`, len(in)/8) + `1]}`)
		var x1, y any
		json.UnmarshalRead(bb, &x1)
		bb.Reset()
		bb.Write(in)
		json.UnmarshalRead(tap0(in, p), &y, opts...)
		got := tgt.New()
		gerr := classify(json.UnmarshalRead(bb, got, opts...))
		want := tgt.New()
		werr := classify(json.Unmarshal(append([]byte(nil), in...), want, opts...))
		st.Steps += 3
		st.Nontrivial = true
		if gerr != werr || (werr.Kind == "" && !reflect.DeepEqual(got, want)) {
			if report("C03", "C03/route-disagreement", "reused-bytes.Buffer/"+tgt.Name, "UnmarshalRead from a reused bytes.Buffer: %s err=%v ; Unmarshal: %s err=%v", render(got), gerr, render(want), werr) {
				return p, viols
			}
		}
		if gerr.Kind == "" {
			if v := sc.meaningCheck(p, in, got, tgt.Name, st); v != nil {
				viols = append(viols, *v)
			}
		}
	case "read":
		want := tgt.New()
		werr := classify(json.Unmarshal(append([]byte(nil), in...), want, opts...))
		var got any
		var gerr errClass
		for attempt := 0; attempt < 4; attempt++ {
			got = tgt.New()
			gerr = classify(json.UnmarshalRead(tap, got, opts...))
			st.Steps++
			if gerr.Kind != "injected" {
				break
			}
			// a failed UnmarshalRead cannot be resumed: the property promises
			// nothing further for this call; the fault must merely surface.
			st.Probe("decarshal/read-fault-surfaced")
			st.Nontrivial = true
			return p, viols
		}
		if tap.FaultsDelivered > 0 && gerr.Kind != "injected" {
			// fault met after the outcome was already decided is acceptable only
			// if the outcome equals the fault-free one (checked below)
			st.Probe("decarshal/fault-met-but-call-completed")
		}
		if droppedWhileLocating(p, tap.FaultsDelivered, gerr, werr) {
			if report("C05", "C05/fault-dropped-while-locating-user-error", "UnmarshalRead", "UnmarshalRead: %v ; Unmarshal: %v ; a transient read error was delivered and never reported; input=%s", gerr, werr, clip(in, 200)) {
				return p, viols
			}
		} else if gerr != werr {
			if report("C05", "C05/unmarshalread-vs-unmarshal/error", tgt.Name, "UnmarshalRead: %v ; Unmarshal: %v ; input=%s", gerr, werr, clip(in, 200)) {
				return p, viols
			}
		}
		if werr.Kind == "" && !reflect.DeepEqual(got, want) {
			if report("C05", "C05/unmarshalread-vs-unmarshal/value", tgt.Name, "values differ: stream %s ; slice %s", render(got), render(want)) {
				return p, viols
			}
		}
		if werr.Kind == "" {
			st.Probe("decarshal/read-ok")
			if v := sc.meaningCheck(p, in, got, tgt.Name, st); v != nil {
				viols = append(viols, *v)
			}
		} else {
			st.Probe("decarshal/read-err/" + werr.Kind)
		}
	case "decode":
		// twin: whole slice in a bytes.Buffer
		tw := jsontext.NewDecoder(bytes.NewBuffer(append([]byte(nil), in...)), decOpts2(p)...)
		d := jsontext.NewDecoder(tap, decOpts2(p)...)
		ref := refjson.Scan(in, refjson.Opts{AllowInvalidUTF8: p.AllowUTF8, AllowDuplicateNames: p.AllowDup})
		callOpts := noopOpts(p.Noop & 2)
		if p.FromFunc {
			callOpts = opts[len(opts)-1:]
		}
		for k := 0; k < 40; k++ {
			want := tgt.New()
			werr := classify(json.UnmarshalDecode(tw, want, callOpts...))
			wobs := observe(tw, tw.InputOffset(), true)
			var got any
			var gerr errClass
			got = tgt.New()
			gerr = classify(json.UnmarshalDecode(d, got, callOpts...))
			st.Steps++
			if gerr.Kind == "injected" {
				st.Probe("decarshal/decode-fault-surfaced")
				st.Nontrivial = true
				return p, viols // mid-value abort: nothing further promised
			}
			gobs := observe(d, d.InputOffset(), true)
			if droppedWhileLocating(p, tap.FaultsDelivered, gerr, werr) {
				if report("C05", "C05/fault-dropped-while-locating-user-error", "UnmarshalDecode", "value %d: stream %v ; slice %v ; a transient read error was delivered and never reported; input=%s", k, gerr, werr, clip(in, 200)) {
					return p, viols
				}
			} else if gerr != werr {
				if report("C05", "C05/unmarshaldecode-stream-vs-slice/error", tgt.Name, "value %d: stream %v ; slice %v ; input=%s", k, gerr, werr, clip(in, 200)) {
					return p, viols
				}
			}
			if !gobs.equal(wobs) {
				if report("C05", "C05/unmarshaldecode-stream-vs-slice/observers", tgt.Name, "value %d: stream %v ; slice %v", k, gobs, wobs) {
					return p, viols
				}
			}
			if werr.Kind == "" && !reflect.DeepEqual(got, want) {
				if report("C05", "C05/unmarshaldecode-stream-vs-slice/value", tgt.Name, "value %d differs: stream %s ; slice %s", k, render(got), render(want)) {
					return p, viols
				}
			}
			switch tgt.Name {
			case "any", "map[string]any", "[]any", "named-any":
				// "the same tree is obtained ... from []byte, from a stream"
				if (gerr.Kind == "") != (werr.Kind == "") || (werr.Kind == "" && !reflect.DeepEqual(got, want)) {
					if report("C03", "C03/route-disagreement", "UnmarshalDecode-stream/"+tgt.Name, "value %d of the stream: over a chunked reader %s err=%v ; over the whole slice %s err=%v", k, render(got), gerr, render(want), werr) {
						return p, viols
					}
				}
			}
			// "equals Unmarshal of each value in turn"
			if werr.Kind == "" && !ref.Ambiguous && k < len(ref.Values) {
				sp := ref.Values[k]
				one := tgt.New()
				oerr := classify(json.Unmarshal(in[sp[0]:sp[1]], one, opts...))
				if oerr.Kind != "" {
					if report("C05", "C05/unmarshaldecode-vs-unmarshal-each/error", tgt.Name, "value %d [%d,%d): UnmarshalDecode ok but Unmarshal of the span: %v", k, sp[0], sp[1], oerr) {
						return p, viols
					}
				} else if !reflect.DeepEqual(got, one) {
					if report("C05", "C05/unmarshaldecode-vs-unmarshal-each/value", tgt.Name, "value %d differs: stream %s ; span %s", k, render(got), render(one)) {
						return p, viols
					}
				}
				if gobs.Off != int64(sp[1]) {
					if report("C05", "C05/unmarshaldecode-vs-unmarshal-each/offset", tgt.Name, "value %d: InputOffset %d, span end %d", k, gobs.Off, sp[1]) {
						return p, viols
					}
				}
				st.Probe("decarshal/decode-value-ok")
				if v := sc.meaningCheck(p, in[sp[0]:sp[1]], got, tgt.Name, st); v != nil {
					viols = append(viols, *v)
				}
			}
			if werr.Kind != "" {
				st.Probe("decarshal/decode-err/" + werr.Kind)
				break
			}
		}
	}
	st.Fault("read/short", sim.NShort)
	st.Fault("read/one-byte", sim.NOneByte)
	st.Fault("read/empty", sim.NEmpty)
	st.Fault("read/transient-error", sim.NErr)
	st.Fault("read/data-with-EOF", sim.NDataEOF)
	if sim.NShort+sim.NEmpty+sim.NErr > 0 {
		st.Nontrivial = true
	}
	st.SigAdd(0xa5, uint64(p.Target), hashBytes([]byte(p.Route)), uint64(bitsLen(sim.MaxAsk)), uint64(sim.NErr), uint64(bitsLen(len(in))), hashBytes(in), uint64(p.Noop))
	for _, c := range p.Read.Cuts {
		st.SigAdd(uint64(byteClass(in, c)), uint64(bitsLen(c)))
	}
	return p, viols
}

func decOpts2(p *DecArshalPlan) []jsontext.Options {
	if p.Legacy {
		return []jsontext.Options{jsonv1.DefaultOptionsV1(), jsontext.AllowInvalidUTF8(p.AllowUTF8), jsontext.AllowDuplicateNames(p.AllowDup)}
	}
	return []jsontext.Options{jsontext.AllowInvalidUTF8(p.AllowUTF8), jsontext.AllowDuplicateNames(p.AllowDup || p.Noop&1 != 0)}
}

func render(v any) string {
	s := fmt.Sprintf("%#v", reflect.ValueOf(v).Elem().Interface())
	if len(s) > 300 {
		s = s[:300] + "..."
	}
	return s
}

// meaningCheck (C03): for untyped targets the decoded tree equals the
// reference decoder's.
func (sc *DecArshal) meaningCheck(p *DecArshalPlan, text []byte, got any, tname string, st *core.Stats) *core.Violation {
	switch tname {
	case "any", "map[string]any", "[]any", "named-any":
	default:
		return nil
	}
	if p.AllowDup || p.AllowUTF8 || p.FromFunc || p.Legacy {
		return nil // later-wins / U+FFFD semantics are C08's business; a user function or v1 semantics change the meaning
	}
	want, err := refjson.DecodeAny(text)
	if err != nil {
		if errors.Is(err, strconv.ErrRange) {
			v := core.Violationf("C03", "C03/overflow-accepted", tname, "Unmarshal succeeded although a number overflows float64: text=%s", clip(text, 200))
			return &v
		}
		return nil // not a duplicate-free valid text
	}
	g := reflect.ValueOf(got).Elem().Interface()
	if !refjson.EqualAny(g, want) {
		v := core.Violationf("C03", "C03/meaning", tname, "decoded tree differs from reference: got %s want %#v text=%s", render(got), want, clip(text, 200))
		return &v
	}
	st.Probe("c03/meaning-checked/" + tname)
	return nil
}

// tap0 builds a fresh chunked reader over in with the plan's read script.
func tap0(in []byte, p *DecArshalPlan) io.Reader {
	return core.NewSimReader(in, p.Read)
}
