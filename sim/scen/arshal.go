package scen

import (
	"bytes"
	"errors"
	"fmt"
	"reflect"
	"strings"

	json "github.com/go-json-experiment/json"
	"github.com/go-json-experiment/json/jsontext"
	jsonv1 "github.com/go-json-experiment/json/v1"

	"verifsim/core"
	"verifsim/gen"
	"verifsim/peers"
	"verifsim/refjson"
)

// ArshalOpts is a drawn marshal option set.
type ArshalOpts struct {
	Enc           EncOpts `json:"enc"`
	Deterministic bool    `json:"deterministic"`
	NilSliceNull  bool    `json:"format_nil_slice_as_null"`
	NilMapNull    bool    `json:"format_nil_map_as_null"`
	OmitZero      bool    `json:"omit_zero_struct_fields"`
	Stringify     bool    `json:"stringify_numbers"`
	WithFuncs     int     `json:"with_funcs"` // 0 none, 1 MarshalToFunc[PFunc], 2 MarshalFunc[PFunc], 3 both joined
	Legacy        bool    `json:"v1_default_options"`
}

func (o *ArshalOpts) options() []json.Options {
	var os []json.Options
	if o.Legacy {
		os = append(os, jsonv1.DefaultOptionsV1())
	}
	for _, x := range o.Enc.options() {
		os = append(os, x)
	}
	if o.Deterministic {
		os = append(os, json.Deterministic(true))
	}
	if o.NilSliceNull {
		os = append(os, json.FormatNilSliceAsNull(true))
	}
	if o.NilMapNull {
		os = append(os, json.FormatNilMapAsNull(true))
	}
	if o.OmitZero {
		os = append(os, json.OmitZeroStructFields(true))
	}
	if o.Stringify {
		os = append(os, json.StringifyNumbers(true))
	}
	switch o.WithFuncs {
	case 1:
		os = append(os, json.WithMarshalers(json.MarshalToFunc(peers.PToFn)))
	case 2:
		os = append(os, json.WithMarshalers(json.MarshalFunc(peers.PBytesFn)))
	case 3:
		os = append(os, json.WithMarshalers(json.JoinMarshalers(json.MarshalToFunc(peers.PToFn), json.MarshalFunc(peers.PBytesFn))))
	}
	return os
}

func genArshalOpts(s *core.Stream) ArshalOpts {
	var o ArshalOpts
	o.Enc = genEncOpts(s, s.Chance(1, 3))
	o.Enc.Preserve, o.Enc.CanonInts, o.Enc.CanonFlts, o.Enc.Reorder = false, false, false, false
	o.Deterministic = s.Chance(1, 2)
	o.NilSliceNull = s.Chance(1, 6)
	o.NilMapNull = s.Chance(1, 6)
	o.OmitZero = s.Chance(1, 6)
	o.Stringify = s.Chance(1, 8)
	o.WithFuncs = s.Weighted(2, 2, 1, 1)
	if s.Chance(1, 8) {
		// v1 semantics: invalid UTF-8 and duplicate names are allowed
		o.Legacy = true
		o.Enc.AllowUTF8, o.Enc.AllowDup = true, true
	}
	return o
}

// MarshalPlan: one value marshalled through every route.
type MarshalPlan struct {
	Opts      ArshalOpts              `json:"opts"`
	TypeStr   string                  `json:"type"`
	ValueStr  string                  `json:"value"`
	Behaviour map[int]peers.Behaviour `json:"behaviours"`
	PeerTypes map[int]string          `json:"peer_types"`
	Write     core.WritePlan          `json:"write"`
	BytesBuf  bool                    `json:"bytes_buffer_writer"`
	Prefix    int                     `json:"encode_prefix"` // MarshalEncode context: 0 top level, 1 in array after pad, 2 as object member value
	Pad       string                  `json:"-"`
	PadLen    int                     `json:"pad_len"`

	val      reflect.Value
	multiMap bool
	hasNaN   bool
	nBad     int
}

// ArshalMarshal is the marshal-side scenario (C02, C07 at the Marshal level).
type ArshalMarshal struct {
	Mode string // c02: adversarial values and misbehaving peers; c07: well-behaved, omitempty/threshold sweep, write faults
}

var badBytePayloads = []string{gen.WideObject(70, 68, 0), gen.WideObject(80, 66, 0), gen.WideObject(30, 28, 40), "", " ", "nul", "{", "[1,]", "1 2", "{\"a\":1,\"a\":2}", "\"\xff\"", "\"\\ud800\"", "01", "[}", "\"unterminated", "{\"a\":1}}", "\x00", "[1] x", "{\"a\":{\"b\":1,\"b\":2}}"}
var okPayloads = []string{gen.WideObject(70, -1, 0), gen.WideObject(30, -1, 40), "", "null", "\"\"", "{}", "[]", "\"\\\"\"", "0", "[1,{\"a\":null}]", " {\"x\" : [ ] } ", "\"text\"", "{\"a\":1,\"b\":{\"c\":[true]}}", "\"raw \u2028 and \u2029 and <&> kept as they are\"", "[\"\u2028\",{\"\u2029k\":\"\\u2028\"}]"}
var textPayloads = []string{"", "t", "key", "a\"b", "\u2028", "<&>", "long_text_long_text_long_text_long_text_long_text_long_text_long_text", strings.Repeat("K", 4500), strings.Repeat("é", 2100)}
var badTextPayloads = []string{"\xff", "ok\x80", "\xed\xa0\x80"}

func (sc *ArshalMarshal) plan(t *core.Tape, env *Env) *MarshalPlan {
	p := &MarshalPlan{Behaviour: map[int]peers.Behaviour{}, PeerTypes: map[int]string{}}
	ps := t.S("plan")
	p.Opts = genArshalOpts(ps)
	adv := sc.Mode == "c02"
	if rs := t.S("raw-opts"); rs.Chance(1, 4) {
		// how raw values (from MarshalJSON, functions, jsontext.Value fields) are
		// re-encoded; combined with the escaping options these are separate code
		// paths from the ones strings of Go values take
		p.Opts.Enc.Preserve = rs.Bool()
		p.Opts.Enc.CanonInts = rs.Chance(1, 3)
		p.Opts.Enc.CanonFlts = rs.Chance(1, 3)
		p.Opts.Enc.Reorder = rs.Chance(1, 3)
		if rs.Bool() {
			p.Opts.Enc.JS = true
		}
		if rs.Chance(1, 3) {
			p.Opts.Enc.HTML = true
		}
	}
	g := &gen.GoGen{S: t.S("value"), Cfg: gen.GoCfg{MaxDepth: 1 + ps.Draw(4), Peers: true, Adversarial: adv, BigStructs: true, OmitSweep: !adv && ps.Chance(1, 2)}}
	typ := g.Type(0)
	p.val = g.Value(typ, 0)
	p.multiMap, p.hasNaN = g.MultiMap, g.HasNaN
	if p.multiMap {
		// Go's map iteration order is a source of nondeterminism the simulator
		// cannot own; a value with a multi-entry map is only marshalled in sorted
		// order, so that one seed stays one execution.
		p.Opts.Deterministic = true
	}
	if env.WantPlan {
		p.TypeStr = clipStr(typ.String(), 400)
		p.ValueStr = clipStr(fmt.Sprintf("%+v", p.val.Interface()), 400)
	}
	bs := t.S("behaviours")
	for _, pr := range g.Peers {
		p.PeerTypes[pr.ID] = pr.Type
		b := peers.Behaviour{}
		isText := pr.Type == "PText" || pr.Type == "PAppend"
		if isText {
			b.Text = textPayloads[bs.Draw(len(textPayloads))]
			if pr.Key {
				b.Text += fmt.Sprint("#", pr.ID) // keep keys distinct unless a collision is drawn below
			}
		} else {
			b.Payload = okPayloads[bs.Draw(len(okPayloads))]
		}
		if adv && bs.Chance(1, 4) {
			p.nBad++
			if isText {
				switch bs.Draw(8) {
				case 5:
					b.Kind = peers.BZero
				case 6:
					b.Kind = peers.BTwo
				case 7:
					b.Kind = peers.BOpen
				case 0:
					b.Kind = peers.BErr
				case 1:
					b.Kind = peers.BUnsupported
				case 2:
					b.Kind, b.Payload = peers.BBadBytes, badTextPayloads[bs.Draw(len(badTextPayloads))]
				case 3:
					b.Kind = peers.BPanic
				case 4:
					b.Text = "collide" // map keys colliding after MarshalText
				}
			} else {
				b.Kind = 1 + bs.Draw(peers.BNumKinds-1)
				if b.Kind == peers.BBadBytes {
					b.Payload = badBytePayloads[bs.Draw(len(badBytePayloads))]
				}
			}
		}
		p.Behaviour[pr.ID] = b
	}
	ws := t.S("writer")
	p.BytesBuf = ws.Chance(1, 4)
	if !p.BytesBuf {
		ep := &EncPlan{}
		(&Enc{}).genWriteFaults(ws, ep)
		p.Write = ep.Write
	}
	p.Prefix = ws.Draw(3)
	p.PadLen = gen.Size(ws, 5000)
	pad := make([]byte, p.PadLen)
	for i := range pad {
		pad[i] = byte('a' + i%26)
	}
	p.Pad = string(pad)
	return p
}

func clipStr(s string, n int) string {
	if len(s) > n {
		return s[:n] + "..."
	}
	return s
}

// guarded runs f, converting a panic into a result. libPanic is true unless
// the panic value is the peer's own tagged panic.
func guarded(f func() error) (err error, panicked bool, libPanic bool, pv any) {
	defer func() {
		if r := recover(); r != nil {
			panicked = true
			pv = r
			_, peer := r.(peers.PeerPanic)
			libPanic = !peer
		}
	}()
	return f(), false, false, nil
}

func (sc *ArshalMarshal) Run(t *core.Tape, env *Env) (any, []core.Violation) {
	p := sc.plan(t, env)
	st := env.Stats
	var viols []core.Violation
	report := func(prop, class, site, f string, a ...any) bool {
		if prop == "C07" && p.nBad > 0 {
			// cross-route equalities only hold for well-behaved user code: what a
			// misbehaving peer gets away with legitimately depends on the context
			// it is called in (top level, array element, member value)
			return false
		}
		v := core.Violationf(prop, class, site, f, a...)
		viols = append(viols, v)
		return v.Property == env.Prop && !env.Known[v.Key()]
	}
	penv := &peers.Env{Beh: p.Behaviour}
	peers.Cur = penv
	defer func() { peers.Cur = &peers.Env{} }()
	opts := p.Opts.options()
	v := p.val.Interface()
	ropts := refjson.Opts{AllowInvalidUTF8: p.Opts.Enc.AllowUTF8, AllowDuplicateNames: p.Opts.Enc.AllowDup}
	closesParent := false
	for _, b := range p.Behaviour {
		if b.Kind == peers.BCloseParent {
			closesParent = true
		}
	}
	site := "marshal"
	if closesParent {
		site = "peer-closes-parent-container"
	}

	validOne := func(route string, out []byte, newline bool) bool {
		body := out
		if newline {
			if len(body) == 0 || body[len(body)-1] != '\n' {
				return report("C02", "C02/missing-newline", route, "Encoder output %s lacks the newline", clip(out, 80))
			}
			body = body[:len(body)-1]
		}
		r := refjson.Scan(body, ropts)
		if r.Ambiguous {
			st.Probe("arshal/ambiguous-skipped")
			return false
		}
		if r.Status != refjson.Complete || len(r.Values) != 1 || r.Values[0][0] != 0 || r.Values[0][1] != len(body) {
			return report("C02", "C02/nil-error-but-malformed-output", site+"/"+route, "%s returned nil but the output is not exactly one valid value (status=%d values=%d E=%d errkind=%d): %s", route, r.Status, len(r.Values), r.E, r.ErrKind, clip(out, 300))
		}
		if r.MaxDepthSeen > 10000 {
			return report("C02", "C02/nil-error-but-too-deep", site+"/"+route, "output nested %d deep", r.MaxDepthSeen)
		}
		return false
	}

	// Route 1: Marshal
	var out []byte
	err, panicked, libPanic, pv := guarded(func() (e error) { out, e = json.Marshal(v, opts...); return })
	st.Steps++
	if panicked {
		if libPanic {
			report("C20", "C20/panic", "Marshal", "json.Marshal panicked: %v (type %s)", pv, clipStr(p.val.Type().String(), 200))
			report("C02", "C02/library-panic", "Marshal", "json.Marshal panicked: %v (type %s)", pv, clipStr(p.val.Type().String(), 200))
			return p, viols
		}
		st.Probe("arshal/peer-panic-propagated")
		st.Nontrivial = true
	}
	mOK := !panicked && err == nil
	if mOK {
		if validOne("Marshal", out, false) {
			return p, viols
		}
		st.Probe("arshal/marshal-ok")
	} else if !panicked {
		st.Probe("arshal/marshal-err")
	}
	if p.nBad > 0 {
		st.Nontrivial = true
	}
	canCompareBytes := !p.multiMap || p.Opts.Deterministic

	// Route 2: MarshalWrite through a faulty writer
	{
		penv.Log = nil
		var sw *core.SimWriter
		var bb *bytes.Buffer
		var got func() []byte
		var werr error
		var wp, wlp bool
		var wpv any
		if p.BytesBuf {
			bb = &bytes.Buffer{}
			got = bb.Bytes
			werr, wp, wlp, wpv = guarded(func() error { return json.MarshalWrite(bb, v, opts...) })
		} else {
			sw = core.NewSimWriter(p.Write)
			got = func() []byte { return sw.Got }
			werr, wp, wlp, wpv = guarded(func() error { return json.MarshalWrite(sw, v, opts...) })
		}
		st.Steps++
		if wp && wlp {
			report("C20", "C20/panic", "MarshalWrite", "json.MarshalWrite panicked: %v", wpv)
			report("C02", "C02/library-panic", "MarshalWrite/"+writerKind2(p), "json.MarshalWrite panicked: %v", wpv)
			return p, viols
		}
		d := got()
		injected := werr != nil && errors.Is(werr, core.ErrInjected)
		switch {
		case wp:
		case werr == nil:
			if validOne("MarshalWrite", d, false) {
				return p, viols
			}
			if !mOK && !panicked {
				if report("C07", "C07/marshalwrite-ok-but-marshal-failed", writerKind2(p), "MarshalWrite returned nil, Marshal returned %v", classify(err)) {
					return p, viols
				}
			}
			if mOK && canCompareBytes && !bytes.Equal(d, out) {
				if report("C07", "C07/marshalwrite-differs-from-marshal", writerKind2(p), "MarshalWrite delivered %s, Marshal returned %s", clip(d, 200), clip(out, 200)) {
					return p, viols
				}
			}
		case injected:
			st.Nontrivial = true
			if mOK && canCompareBytes && (len(d) > len(out) || !bytes.Equal(d, out[:len(d)])) {
				if report("C07", "C07/marshalwrite-fault-not-prefix", writerKind2(p), "after the injected write error the writer holds %s, not a prefix of %s", clip(d, 200), clip(out, 200)) {
					return p, viols
				}
			}
			st.Probe("arshal/marshalwrite-fault-surfaced")
		default:
			// a non-I/O error: Marshal must have failed too
			if mOK {
				if report("C07", "C07/marshalwrite-failed-but-marshal-ok", writerKind2(p), "MarshalWrite returned %v, Marshal succeeded", classify(werr)) {
					return p, viols
				}
			}
			if mOK && canCompareBytes && (len(d) > len(out) || !bytes.Equal(d, out[:len(d)])) {
				// not reachable when mOK; kept for symmetry
			}
		}
		if werr != nil && !wp {
			// the pooled streaming encoder that just failed (write fault, or a value
			// that cannot be marshalled half-way through) is reused by the next call
			sw3 := core.NewSimWriter(core.WritePlan{})
			e3, p3, _, _ := guarded(func() error { return json.MarshalWrite(sw3, []any{"after", 1}, opts...) })
			st.Steps++
			if !p3 && e3 == nil {
				if want3, err3 := json.Marshal([]any{"after", 1}, opts...); err3 == nil && !bytes.Equal(sw3.Got, want3) {
					if report("C07", "C07/marshalwrite-after-failed-marshalwrite", writerKind2(p), "a MarshalWrite of [\"after\",1] following a failed one delivered %s, Marshal returns %s", clip(sw3.Got, 200), clip(want3, 200)) {
						return p, viols
					}
				}
				if validOne("MarshalWrite-after-failed-MarshalWrite", sw3.Got, false) {
					return p, viols
				}
			}
		}
		if werr != nil && !wp && mOK && canCompareBytes {
			// the pooled streaming encoder that just failed is reused by the next call
			sw2 := core.NewSimWriter(core.WritePlan{})
			e2, p2, _, _ := guarded(func() error { return json.MarshalWrite(sw2, v, opts...) })
			if !p2 && (e2 != nil || !bytes.Equal(sw2.Got, out)) {
				if report("C07", "C07/marshalwrite-after-failed-marshalwrite", writerKind2(p), "a MarshalWrite following a failed one delivered %s (err %v), Marshal returns %s", clip(sw2.Got, 200), classify(e2), clip(out, 200)) {
					return p, viols
				}
			}
			st.Probe("arshal/marshalwrite-after-failure-checked")
		}
		if sw != nil {
			st.Fault("write/short", sw.NShort)
			st.Fault("write/error-after-full-write", sw.NErrAfter)
			st.Fault("write/zero-progress-error", sw.NReject)
			st.Fault("write/disk-full", sw.NDiskFull)
			st.SigAdd(uint64(sw.NShort), uint64(sw.NErrAfter), uint64(sw.NReject), uint64(sw.NDiskFull), uint64(bitsLen(sw.MaxWrite)))
		}
	}

	// Route 3: MarshalEncode inside a token-level Encoder, fault-free twin vs plain writer
	{
		run := func(w interface{ Write([]byte) (int, error) }) (enc *jsontext.Encoder, err error, pan, lib bool, pv any) {
			enc = jsontext.NewEncoder(w, p.Opts.Enc.options()...)
			switch p.Prefix {
			case 1:
				enc.WriteToken(jsontext.BeginArray)
				enc.WriteToken(jsontext.String(p.Pad))
			case 2:
				enc.WriteToken(jsontext.BeginObject)
				enc.WriteToken(jsontext.String("pad"))
				enc.WriteToken(jsontext.String(p.Pad))
				enc.WriteToken(jsontext.String("v"))
			}
			err, pan, lib, pv = guarded(func() error { return json.MarshalEncode(enc, v, opts...) })
			return
		}
		var tb bytes.Buffer
		tenc, terr, tpan, tlib, tpv := run(&tb)
		st.Steps++
		if tpan && tlib {
			report("C20", "C20/panic", "MarshalEncode", "json.MarshalEncode panicked: %v", tpv)
			report("C02", "C02/library-panic", "MarshalEncode/bytes.Buffer", "json.MarshalEncode panicked: %v", tpv)
			return p, viols
		}
		if !tpan && terr == nil {
			closeEnc(tenc)
			if validOne("MarshalEncode", tb.Bytes(), true) {
				return p, viols
			}
			// the value's bytes are Marshal's when no layout option intervenes
			if mOK && canCompareBytes && !p.Opts.Enc.fopts().Multiline && !p.Opts.Enc.fopts().SpaceAfterComma && !p.Opts.Enc.fopts().SpaceAfterColon {
				var want []byte
				switch p.Prefix {
				case 0:
					want = append(append(want, out...), '\n')
				case 1:
					want = append(want, '[')
					want = append(want, refjson.Quote(p.Pad, false, false)...)
					want = append(want, ',')
					want = append(want, out...)
					want = append(want, ']', '\n')
				case 2:
					want = append(want, `{"pad":`...)
					want = append(want, refjson.Quote(p.Pad, false, false)...)
					want = append(want, `,"v":`...)
					want = append(want, out...)
					want = append(want, '}', '\n')
				}
				if !bytes.Equal(tb.Bytes(), want) {
					if report("C07", "C07/marshalencode-differs-from-marshal", "bytes.Buffer", "MarshalEncode (context %d) produced %s, want %s", p.Prefix, clip(tb.Bytes(), 200), clip(want, 200)) {
						return p, viols
					}
				}
			}
			if !mOK && !panicked {
				if report("C07", "C07/marshalencode-ok-but-marshal-failed", "bytes.Buffer", "MarshalEncode returned nil, Marshal returned %v", classify(err)) {
					return p, viols
				}
			}
		}
		if !p.BytesBuf && !tpan {
			sw := core.NewSimWriter(p.Write)
			senc, serr, span, slib, spv := run(sw)
			st.Steps++
			if span && slib {
				report("C20", "C20/panic", "MarshalEncode", "json.MarshalEncode panicked: %v", spv)
				report("C02", "C02/library-panic", "MarshalEncode/plain-writer", "json.MarshalEncode panicked: %v", spv)
				return p, viols
			}
			F := tb.Bytes()
			switch {
			case span:
			case serr != nil && errors.Is(serr, core.ErrInjected):
				st.Nontrivial = true
				// abandoned encoder: only "what was delivered is a prefix of the fault-free output"
				if terr == nil && canCompareBytes && (len(sw.Got) > len(F) || !bytes.Equal(sw.Got, F[:len(sw.Got)])) {
					if report("C07", "C07/marshalencode-fault-not-prefix", "plain-writer", "writer holds %s, not a prefix of fault-free %s", clip(sw.Got, 200), clip(F, 200)) {
						return p, viols
					}
				}
			case serr == nil && terr == nil:
				sw.Off = true
				closeEnc(senc)
				if canCompareBytes && !bytes.Equal(sw.Got, F) {
					if report("C07", "C07/marshalencode-writer-kinds-differ", "plain-writer", "plain writer got %s, bytes.Buffer got %s", clip(sw.Got, 200), clip(F, 200)) {
						return p, viols
					}
				}
			case (serr == nil) != (terr == nil):
				if report("C07", "C07/marshalencode-writer-kinds-differ/error", "plain-writer", "plain writer: %v ; bytes.Buffer: %v", classify(serr), classify(terr)) {
					return p, viols
				}
			}
			st.Fault("write/short", sw.NShort)
			st.Fault("write/error-after-full-write", sw.NErrAfter)
			st.Fault("write/zero-progress-error", sw.NReject)
			st.Fault("write/disk-full", sw.NDiskFull)
		}
	}
	for _, f := range penv.Findings {
		if report("C17", "C17/peer-side-finding", "marshal", "%s", f) {
			return p, viols
		}
	}
	kinds := uint64(0)
	for _, b := range p.Behaviour {
		kinds |= 1 << uint(b.Kind)
	}
	st.SigAdd(0xa2, kinds, uint64(bitsLen(len(out))), hashBytes([]byte(p.val.Type().String())), uint64(p.Prefix), hashBytes([]byte(fmt.Sprint(p.Opts))))
	return p, viols
}

func writerKind2(p *MarshalPlan) string {
	if p.BytesBuf {
		return "bytes.Buffer"
	}
	return "plain-writer"
}
