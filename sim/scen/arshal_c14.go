package scen

import (
	"bytes"
	"encoding/base64"
	"errors"
	"fmt"
	"reflect"
	"strconv"
	"strings"

	json "github.com/go-json-experiment/json"
	"github.com/go-json-experiment/json/jsontext"
	jsonv1 "github.com/go-json-experiment/json/v1"

	"verifsim/core"
	"verifsim/gen"
	"verifsim/refjson"
)

// MergeChain is the C14 scenario: a chain j1..jk of texts fitted to a random
// merge-capable type is applied to one long-lived value (separate Unmarshal
// calls, and successive UnmarshalDecode calls over one chunked stream); the
// result must equal Unmarshal(merge(j1..jk)) into a zero value, where merge
// is the type-independent recursive object union of the statement.
type MergeChain struct{}

type MergePlan struct {
	TypeStr   string        `json:"type"`
	Texts     []string      `json:"texts"`
	AnyLength bool          `json:"unmarshal_array_from_any_length"`
	Read      core.ReadPlan `json:"read"`

	typ reflect.Type
}

type mergeGen struct {
	s *core.Stream
}

func (g *mergeGen) typ(depth int) reflect.Type {
	s := g.s
	if depth >= 4 {
		return g.scalar()
	}
	switch s.Weighted(4, 2, 2, 1, 2, 3) {
	case 0:
		return g.scalar()
	case 1:
		return reflect.PointerTo(g.typ(depth + 1))
	case 2:
		return reflect.SliceOf(g.typ(depth + 1))
	case 3:
		return reflect.ArrayOf(1+s.Draw(3), g.typ(depth+1))
	case 4:
		kt := reflect.TypeFor[string]()
		if s.Chance(1, 5) {
			kt = reflect.TypeFor[int]()
		}
		return reflect.MapOf(kt, g.typ(depth+1))
	default:
		n := 1 + s.Draw(5)
		if s.Chance(1, 20) {
			n = 8 + s.Draw(5)
		}
		var fs []reflect.StructField
		for i := 0; i < n; i++ {
			fs = append(fs, reflect.StructField{Name: "F" + strconv.Itoa(i), Type: g.typ(depth + 1), Tag: reflect.StructTag(fmt.Sprintf(`json:"f%d"`, i))})
		}
		if s.Chance(1, 4) {
			// an embedded fallback map collects the members no field claims; it merges like a map field
			fs = append(fs, reflect.StructField{Name: "X", Type: reflect.MapOf(reflect.TypeFor[string](), g.typ(depth+1)), Tag: `json:",embed"`})
		}
		return reflect.StructOf(fs)
	}
}

func (g *mergeGen) scalar() reflect.Type {
	return []reflect.Type{reflect.TypeFor[int](), reflect.TypeFor[string](), reflect.TypeFor[bool](), reflect.TypeFor[float64](), reflect.TypeFor[any](), reflect.TypeFor[[]byte](), reflect.TypeFor[[4]byte](), reflect.TypeFor[uint8](), reflect.TypeFor[map[string]any](), reflect.TypeFor[[]any]()}[g.s.Draw(10)]
}

var mergeKeys = []string{"k0", "k1", "k2", "f0", "f1"}

func (g *mergeGen) anyText(b []byte, depth int) []byte {
	s := g.s
	if depth > 3 {
		return append(b, "1"...)
	}
	switch s.Weighted(3, 2, 2, 1, 3, 2) {
	case 0:
		return strconv.AppendInt(b, int64(s.Draw(100)), 10)
	case 1:
		return append(b, []string{`"s"`, `""`, `"text"`}[s.Draw(3)]...)
	case 2:
		return append(b, []string{"true", "false", "null"}[s.Draw(3)]...)
	case 3:
		return append(b, []string{"1.5", "-0", "1e2"}[s.Draw(3)]...)
	case 4:
		b = append(b, '{')
		used := map[string]bool{}
		for i, n := 0, s.Draw(4); i < n; i++ {
			k := mergeKeys[s.Draw(len(mergeKeys))]
			if used[k] {
				continue
			}
			if len(used) > 0 {
				b = append(b, ',')
			}
			used[k] = true
			b = append(b, '"')
			b = append(b, k...)
			b = append(b, '"', ':')
			b = g.anyText(b, depth+1)
		}
		return append(b, '}')
	default:
		b = append(b, '[')
		for i, n := 0, s.Draw(3); i < n; i++ {
			if i > 0 {
				b = append(b, ',')
			}
			b = g.anyText(b, depth+1)
		}
		return append(b, ']')
	}
}

// fit appends a JSON text that fits type t, with nulls, missing and extra members.
func (g *mergeGen) fit(b []byte, t reflect.Type, depth int, anyLen bool) []byte {
	s := g.s
	nullable := t.Kind() == reflect.Pointer || t.Kind() == reflect.Slice || t.Kind() == reflect.Map || t.Kind() == reflect.Interface
	if (nullable && s.Chance(1, 5)) || (!nullable && s.Chance(1, 12)) {
		return append(b, "null"...)
	}
	switch t.Kind() {
	case reflect.Bool:
		return append(b, []string{"true", "false"}[s.Draw(2)]...)
	case reflect.Int:
		return strconv.AppendInt(b, int64(s.Draw(2000))-1000, 10)
	case reflect.Uint8:
		return strconv.AppendInt(b, int64(s.Draw(256)), 10)
	case reflect.Float64:
		return append(b, []string{"0", "1.5", "-2.25", "1e10", "123456789"}[s.Draw(5)]...)
	case reflect.String:
		return append(b, []string{`""`, `"a"`, `"hello"`, `"é\n"`}[s.Draw(4)]...)
	case reflect.Interface:
		return g.anyText(b, depth)
	case reflect.Pointer:
		return g.fit(b, t.Elem(), depth+1, anyLen)
	case reflect.Slice:
		if t.Elem().Kind() == reflect.Uint8 {
			raw := make([]byte, s.Draw(6))
			for i := range raw {
				raw[i] = byte(s.Draw(256))
			}
			return append(append(append(b, '"'), base64.StdEncoding.EncodeToString(raw)...), '"')
		}
		b = append(b, '[')
		for i, n := 0, s.Draw(4); i < n; i++ {
			if i > 0 {
				b = append(b, ',')
			}
			b = g.fit(b, t.Elem(), depth+1, anyLen)
		}
		return append(b, ']')
	case reflect.Array:
		n := t.Len()
		if t.Elem().Kind() == reflect.Uint8 {
			if anyLen && s.Chance(1, 2) {
				n = s.Draw(n + 1)
			}
			raw := make([]byte, n)
			for i := range raw {
				raw[i] = byte(1 + s.Draw(255))
			}
			return append(append(append(b, '"'), base64.StdEncoding.EncodeToString(raw)...), '"')
		}
		if anyLen && s.Chance(1, 2) {
			n = s.Draw(n + 1)
		}
		b = append(b, '[')
		for i := 0; i < n; i++ {
			if i > 0 {
				b = append(b, ',')
			}
			b = g.fit(b, t.Elem(), depth+1, anyLen)
		}
		return append(b, ']')
	case reflect.Map:
		b = append(b, '{')
		used := map[string]bool{}
		for i, n := 0, s.Draw(4); i < n; i++ {
			k := mergeKeys[s.Draw(3)]
			if t.Key().Kind() == reflect.Int {
				k = strconv.Itoa(s.Draw(3))
			}
			if used[k] {
				continue
			}
			if len(used) > 0 {
				b = append(b, ',')
			}
			used[k] = true
			b = append(b, '"')
			b = append(b, k...)
			b = append(b, '"', ':')
			b = g.fit(b, t.Elem(), depth+1, anyLen)
		}
		return append(b, '}')
	case reflect.Struct:
		b = append(b, '{')
		first := true
		var fallback reflect.Type
		for i := 0; i < t.NumField(); i++ {
			if t.Field(i).Tag == `json:",embed"` {
				fallback = t.Field(i).Type.Elem()
				continue
			}
			if !s.Chance(3, 5) {
				continue
			}
			if !first {
				b = append(b, ',')
			}
			first = false
			b = append(b, '"', 'f')
			b = strconv.AppendInt(b, int64(i), 10)
			b = append(b, '"', ':')
			b = g.fit(b, t.Field(i).Type, depth+1, anyLen)
		}
		if fallback != nil {
			for k := 0; k < 3; k++ {
				if !s.Chance(1, 2) {
					continue
				}
				if !first {
					b = append(b, ',')
				}
				first = false
				b = append(b, '"', 'u')
				b = strconv.AppendInt(b, int64(k), 10)
				b = append(b, '"', ':')
				b = g.fit(b, fallback, depth+1, anyLen)
			}
			return append(b, '}')
		}
		if s.Chance(1, 5) {
			if !first {
				b = append(b, ',')
			}
			b = append(b, `"zz_unknown":`...)
			b = g.anyText(b, depth+1)
		}
		return append(b, '}')
	}
	return append(b, "null"...)
}

func (sc *MergeChain) plan(t *core.Tape) *MergePlan {
	p := &MergePlan{}
	s := t.S("plan")
	g := &mergeGen{s: t.S("type")}
	p.typ = g.typ(0)
	p.TypeStr = clipStr(p.typ.String(), 500)
	p.AnyLength = s.Chance(1, 4)
	k := 2 + s.Weighted(5, 3, 2)
	g.s = t.S("texts")
	for i := 0; i < k; i++ {
		p.Texts = append(p.Texts, string(g.fit(nil, p.typ, 0, p.AnyLength)))
	}
	rs := t.S("reader")
	total := 0
	for _, x := range p.Texts {
		total += len(x) + 1
	}
	switch rs.Weighted(2, 2, 3, 3) {
	case 1:
		p.Read.MaxChunk = 1
	case 2:
		p.Read.Cuts = []int{rs.Draw(total + 1), rs.Draw(total + 1)}
	case 3:
		p.Read.MaxChunk = 1 + rs.Draw(50)
	}
	return p
}

func (sc *MergeChain) Run(t *core.Tape, env *Env) (any, []core.Violation) {
	p := sc.plan(t)
	st := env.Stats
	var viols []core.Violation
	report := func(prop, class, site, f string, a ...any) bool {
		v := core.Violationf(prop, class, site, f, a...)
		viols = append(viols, v)
		return v.Property == env.Prop && !env.Known[v.Key()]
	}
	var opts []json.Options
	if p.AnyLength {
		opts = append(opts, jsonv1.UnmarshalArrayFromAnyLength(true))
	}
	// reference: merge the texts, unmarshal once into a zero value
	var merged *refjson.Node
	for _, x := range p.Texts {
		n, err := refjson.ParseNode([]byte(x))
		if err != nil {
			return p, viols // generator produced something the reference rejects (should not happen)
		}
		merged = refjson.Merge(merged, n)
	}
	mtext := refjson.AppendNode(nil, merged)
	want := reflect.New(p.typ)
	if err := json.Unmarshal(mtext, want.Interface(), opts...); err != nil {
		st.Probe("c14/merged-text-rejected")
		return p, viols
	}
	wantS := renderAny(want.Interface())

	// (a) separate Unmarshal calls into one long-lived value
	gotA := reflect.New(p.typ)
	okA := true
	for _, x := range p.Texts {
		if err := json.Unmarshal([]byte(x), gotA.Interface(), opts...); err != nil {
			okA = false
			break
		}
		st.Steps++
	}
	if okA {
		if a := renderAny(gotA.Interface()); a != wantS {
			if report("C14", "C14/merge-law", "Unmarshal-chain/"+kindClass(p.typ), "type %s; texts %q; sequential result %s ; Unmarshal(merge)=%s of %s", p.TypeStr, p.Texts, clipStr(a, 300), clipStr(wantS, 300), clip(mtext, 200)) {
				return p, viols
			}
		}
		st.Probe("c14/chain-ok")
	} else {
		st.Probe("c14/chain-step-failed(skipped)")
	}
	// (b) one stream, successive UnmarshalDecode calls, chunked reader
	var stream bytes.Buffer
	for _, x := range p.Texts {
		stream.WriteString(x)
		stream.WriteByte('\n')
	}
	sim := core.NewSimReader(stream.Bytes(), p.Read)
	dec := jsontext.NewDecoder(sim)
	gotB := reflect.New(p.typ)
	okB := true
	for range p.Texts {
		if err := json.UnmarshalDecode(dec, gotB.Interface(), opts...); err != nil {
			okB = false
			break
		}
		st.Steps++
	}
	if okB != okA {
		if report("C14", "C14/stream-vs-calls", kindClass(p.typ), "chain succeeded=%v as separate calls but %v over a stream; type %s texts %q", okA, okB, p.TypeStr, p.Texts) {
			return p, viols
		}
	}
	if okB {
		if b := renderAny(gotB.Interface()); b != wantS {
			if report("C14", "C14/merge-law", "UnmarshalDecode-stream/"+kindClass(p.typ), "type %s; texts %q; streamed result %s ; Unmarshal(merge)=%s", p.TypeStr, p.Texts, clipStr(b, 300), clipStr(wantS, 300)) {
				return p, viols
			}
		}
	}
	st.Fault("read/short", sim.NShort)
	st.Fault("read/one-byte", sim.NOneByte)
	if len(p.Texts) > 2 || sim.NShort > 0 {
		st.Nontrivial = true
	}
	st.SigAdd(0x14, hashBytes([]byte(p.TypeStr)), uint64(len(p.Texts)), hashBytes(mtext))
	return p, viols
}

func kindClass(t reflect.Type) string { return t.Kind().String() }

// ---------------------------------------------------------------------------
// C16, SemanticError clause: one value that cannot be converted, at a known
// pointer and byte span.

// SemErr is the scenario; it reuses the merge-capable type generator.
type SemErr struct{}

type SemErrPlan struct {
	TypeStr string        `json:"type"`
	Text    string        `json:"text"`
	Ptr     string        `json:"want_pointer"`
	Start   int           `json:"value_start"`
	End     int           `json:"value_end"`
	What    string        `json:"injected"`
	Read    core.ReadPlan `json:"read"`
	typ     reflect.Type
}

type semGen struct {
	mergeGen
	countdown int
	done      bool
	ptr       string
	start     int
	end       int
	what      string
}

func ptrEsc(s string) string {
	var b []byte
	for i := 0; i < len(s); i++ {
		switch s[i] {
		case '~':
			b = append(b, "~0"...)
		case '/':
			b = append(b, "~1"...)
		default:
			b = append(b, s[i])
		}
	}
	return string(b)
}

// fitBad is fit() with exactly one unconvertible scalar.
func (g *semGen) fitBad(b []byte, t reflect.Type, ptr string) []byte {
	s := g.s
	scalarBad := func(kind reflect.Kind) (string, string) {
		switch kind {
		case reflect.Bool:
			return []string{`"true"`, `1`}[s.Draw(2)], "non-bool into bool"
		case reflect.Int:
			return []string{`"12"`, `1.5`, `true`, `9223372036854775808`, `1e2`}[s.Draw(5)], "bad value into int"
		case reflect.Uint8:
			return []string{`256`, `-1`, `"1"`, `0.5`}[s.Draw(4)], "bad value into uint8"
		case reflect.Float64:
			return []string{`"1.5"`, `true`, `1e999`}[s.Draw(3)], "bad value into float64"
		case reflect.String:
			return []string{`12`, `true`, `{}`, `[1]`}[s.Draw(4)], "non-string into string"
		}
		return "", ""
	}
	isScalar := func(t reflect.Type) bool {
		switch t.Kind() {
		case reflect.Bool, reflect.Int, reflect.Uint8, reflect.Float64, reflect.String:
			return true
		}
		return t.Kind() == reflect.Slice && t.Elem().Kind() == reflect.Uint8
	}
	if isScalar(t) && !g.done {
		g.countdown--
		if g.countdown <= 0 {
			g.done = true
			var bad, what string
			if t.Kind() == reflect.Slice {
				bad, what = []string{`"!!!not base64"`, `12`, `"AQ"`}[s.Draw(3)], "bad value into []byte"
			} else {
				bad, what = scalarBad(t.Kind())
			}
			g.ptr, g.start, g.what = ptr, len(b), what
			b = append(b, bad...)
			g.end = len(b)
			return b
		}
	}
	switch t.Kind() {
	case reflect.Pointer:
		return g.fitBad(b, t.Elem(), ptr)
	case reflect.Slice:
		if t.Elem().Kind() == reflect.Uint8 {
			return g.fit(b, t, 9, false)
		}
		b = append(b, '[')
		n := 1 + s.Draw(3)
		for i := 0; i < n; i++ {
			if i > 0 {
				b = append(b, ',')
			}
			b = g.fitBad(b, t.Elem(), ptr+"/"+strconv.Itoa(i))
		}
		return append(b, ']')
	case reflect.Array:
		if t.Elem().Kind() == reflect.Uint8 {
			return g.fit(b, t, 9, false)
		}
		b = append(b, '[')
		for i := 0; i < t.Len(); i++ {
			if i > 0 {
				b = append(b, ',')
			}
			b = g.fitBad(b, t.Elem(), ptr+"/"+strconv.Itoa(i))
		}
		return append(b, ']')
	case reflect.Map:
		if t == reflect.TypeFor[map[string]any]() {
			return g.fit(b, t, 9, false)
		}
		b = append(b, '{')
		n := 1 + s.Draw(3)
		for i := 0; i < n; i++ {
			k := []string{"k0", "k/1", "k~2"}[i]
			if t.Key().Kind() == reflect.Int {
				k = strconv.Itoa(i * 7)
			}
			if i > 0 {
				b = append(b, ',')
			}
			b = append(b, '"')
			b = append(b, k...)
			b = append(b, '"', ':')
			b = g.fitBad(b, t.Elem(), ptr+"/"+ptrEsc(k))
		}
		return append(b, '}')
	case reflect.Struct:
		b = append(b, '{')
		for i := 0; i < t.NumField(); i++ {
			if i > 0 {
				b = append(b, ',')
			}
			name := "f" + strconv.Itoa(i)
			ft := t.Field(i).Type
			if t.Field(i).Tag == `json:",embed"` {
				name, ft = "u0", ft.Elem() // a member that only the embedded fallback map claims
			}
			b = append(b, '"')
			b = append(b, name...)
			b = append(b, '"', ':')
			if s.Chance(1, 3) {
				b = append(b, ' ')
			}
			b = g.fitBad(b, ft, ptr+"/"+name)
		}
		return append(b, '}')
	}
	return g.fit(b, t, 9, false)
}

func (sc *SemErr) plan(t *core.Tape) *SemErrPlan {
	p := &SemErrPlan{}
	g := &semGen{mergeGen: mergeGen{s: t.S("type")}}
	if bs := t.S("before"); bs.Chance(1, 4) {
		// a member whose Go type cannot be unmarshalled into at all: the error is
		// raised BEFORE the value is read; its offset must still be that of the
		// value, also when the colon and whitespace in front of it straddle a refill
		inner := g.typ(2)
		bad := []reflect.Type{reflect.TypeFor[chan int](), reflect.TypeFor[func()](), reflect.TypeFor[complex128]()}[bs.Draw(3)]
		p.typ = reflect.StructOf([]reflect.StructField{
			{Name: "F0", Type: inner, Tag: `json:"f0"`},
			{Name: "Bad", Type: bad, Tag: `json:"bad"`},
			{Name: "F2", Type: reflect.TypeFor[int](), Tag: `json:"f2"`},
		})
		p.TypeStr = clipStr(p.typ.String(), 400)
		g.s = t.S("text")
		var b []byte
		b = append(b, `{"f0":`...)
		b = g.fit(b, inner, 2, false)
		b = append(b, ',')
		for i, n := 0, bs.Draw(40); i < n; i++ {
			b = append(b, ' ')
		}
		b = append(b, `"bad"`...)
		for i, n := 0, bs.Draw(8); i < n; i++ {
			b = append(b, ' ')
		}
		b = append(b, ':')
		for i, n := 0, []int{0, 1, 7, 30, 64, 100, 300}[bs.Draw(7)]; i < n; i++ {
			b = append(b, " \n\t"[i%3])
		}
		p.Start = len(b)
		b = append(b, []string{`1`, `"x"`, `[1,2,3]`, `{"a":null}`, `true`}[bs.Draw(5)]...)
		p.End = len(b)
		b = append(b, `,"f2":7}`...)
		p.Text, p.Ptr, p.What = string(b), "/bad", "member of an unsupported Go type ("+bad.String()+")"
		rs := t.S("reader")
		switch rs.Weighted(2, 2, 3, 3) {
		case 1:
			p.Read.MaxChunk = 1
		case 2:
			p.Read.Cuts = []int{rs.Draw(len(b) + 1), rs.Draw(len(b) + 1)}
		case 3:
			p.Read.MaxChunk = 1 + rs.Draw(50)
		}
		return p
	}
	p.typ = g.typ(0)
	p.TypeStr = clipStr(p.typ.String(), 400)
	g.s = t.S("text")
	g.countdown = 1 + g.s.Draw(12)
	if g.s.Chance(1, 4) {
		g.countdown = 1
	}
	text := g.fitBad(nil, p.typ, "")
	if g.s.Chance(1, 3) {
		text = append([]byte("  \n"), text...)
		g.start += 3
		g.end += 3
	}
	p.Text = string(text)
	if !g.done {
		p.What = ""
		return p
	}
	p.Ptr, p.Start, p.End, p.What = g.ptr, g.start, g.end, g.what
	rs := t.S("reader")
	switch rs.Weighted(2, 2, 3, 3) {
	case 1:
		p.Read.MaxChunk = 1
	case 2:
		p.Read.Cuts = []int{rs.Draw(len(text) + 1), rs.Draw(len(text) + 1)}
	case 3:
		p.Read.MaxChunk = 1 + rs.Draw(50)
	}
	return p
}

// semUser is unmarshalled by a caller-supplied function that reads part of
// the array and then returns an error of its own, without any position.
type semUser []int

type semUserT struct {
	F0 string  `json:"f0"`
	U  semUser `json:"u"`
	F2 int     `json:"f2"`
}

// runUserError: the library has to synthesise the position of an error
// returned by user code from where the decoder stands. Whatever rule it uses,
// the offset must be the start of a token next to that place (the one read
// last or the one coming up), never a comma or whitespace, and the pointer must
// name the array or the element read last / coming up.
func (sc *SemErr) runUserError(t *core.Tape, env *Env) (any, []core.Violation) {
	s := t.S("user")
	st := env.Stats
	var viols []core.Violation
	ws := func(b []byte) []byte {
		n := []int{0, 0, 1, 2, 7, 40, 64, 130, 300}[s.Weighted(6, 6, 4, 3, 2, 1, 1, 1, 1)]
		for i := 0; i < n; i++ {
			b = append(b, " \n\t"[i%3])
		}
		return b
	}
	elems := []string{`1`, `"x"`, `true`, `null`, `-2.5e3`, `"a longer string with \u00e9 escapes"`, `[1,2]`, `{"a":[]}`, `123456789012`}
	n := 1 + s.Draw(6)
	b := []byte(`{"f0":"`)
	b = append(b, strings.Repeat("p", gen.Size(s, 5000))...)
	b = append(b, '"')
	b = ws(b)
	b = append(b, ',')
	b = ws(b)
	b = append(b, `"u"`...)
	b = ws(b)
	b = append(b, ':')
	b = ws(b)
	var starts []int
	starts = append(starts, len(b))
	b = append(b, '[')
	for i := 0; i < n; i++ {
		if i > 0 {
			b = ws(b)
			b = append(b, ',')
		}
		b = ws(b)
		starts = append(starts, len(b))
		b = append(b, elems[s.Draw(len(elems))]...)
	}
	b = ws(b)
	starts = append(starts, len(b))
	b = append(b, `],"f2":7}`...)
	reads := s.Draw(n + 2) // tokens/values read by the function: '[' then elements
	peek := s.Bool()
	useValue := s.Draw(1 << 8)
	text := string(b)
	var rp core.ReadPlan
	rs := t.S("reader")
	switch rs.Weighted(2, 2, 3, 3) {
	case 1:
		rp.MaxChunk = 1
	case 2:
		rp.Cuts = []int{rs.Draw(len(b) + 1), rs.Draw(len(b) + 1)}
	case 3:
		rp.MaxChunk = 1 + rs.Draw(50)
	}
	plan := map[string]any{"mode": "user-error-position", "text": clipStr(text, 600), "elements": n, "reads": reads, "peek_before_returning": peek, "read": rp}
	userErr := errors.New("user code rejects this")
	fn := json.UnmarshalFromFunc(func(dec *jsontext.Decoder, p *semUser) error {
		for i := 0; i < reads; i++ {
			var err error
			if i > 0 && useValue>>(i%8)&1 == 1 {
				_, err = dec.ReadValue()
			} else if i > 0 && dec.PeekKind() != '[' && dec.PeekKind() != '{' {
				_, err = dec.ReadToken()
			} else if i > 0 {
				_, err = dec.ReadValue()
			} else {
				_, err = dec.ReadToken()
			}
			if err != nil {
				return err
			}
		}
		if peek {
			dec.PeekKind()
		}
		return userErr
	})
	okOff := map[int64]bool{int64(starts[reads]): true}
	okPtr := map[string]bool{"/u": true}
	if reads > 0 {
		okOff[int64(starts[reads-1])] = true
	}
	if reads >= 2 {
		okPtr[fmt.Sprint("/u/", reads-2)] = true
	}
	if reads >= 1 && reads-1 < n {
		okPtr[fmt.Sprint("/u/", reads-1)] = true
	}
	check := func(route string, err error) {
		st.Steps++
		ec := classify(err)
		if ec.Kind != "semantic" || !errors.Is(err, userErr) {
			viols = append(viols, core.Violationf("C16", "C16/semantic-error/type", route+"/user-error", "%s: a user function returned its own error after reading %d tokens of the array at /u; the call returned %v; text=%s", route, reads, ec, clip(b, 200)))
			return
		}
		if !okPtr[ec.Ptr] {
			viols = append(viols, core.Violationf("C16", "C16/semantic-error/pointer", route+"/user-error", "%s: JSONPointer=%q for an error returned by user code after reading %d tokens of the %d-element array at /u (peek=%v); text=%s", route, ec.Ptr, reads, n, peek, clip(b, 200)))
			return
		}
		if !okOff[ec.Off] {
			viols = append(viols, core.Violationf("C16", "C16/semantic-error/offset", route+"/user-error", "%s: ByteOffset=%d for an error returned by user code after reading %d tokens of the array at /u (peek=%v): that is not the start of the token read last (%d) nor of the one coming up (%d) but %q; text=%s", route, ec.Off, reads, peek, starts[max(reads-1, 0)], starts[reads], safeByte(b, ec.Off), clip(b, 200)))
			return
		}
		st.Probe("c16/semerr/user-error-checked/" + route)
	}
	var v1, v2, v3 semUserT
	check("Unmarshal", json.Unmarshal(b, &v1, json.WithUnmarshalers(fn)))
	sim := core.NewSimReader(b, rp)
	check("UnmarshalRead", json.UnmarshalRead(sim, &v2, json.WithUnmarshalers(fn)))
	dec := jsontext.NewDecoder(core.NewSimReader(b, rp))
	check("UnmarshalDecode", json.UnmarshalDecode(dec, &v3, json.WithUnmarshalers(fn)))
	if sim.NShort > 0 {
		st.Nontrivial = true
	}
	st.Fault("read/short", sim.NShort)
	pk := 0
	if peek {
		pk = 1
	}
	st.SigAdd(0x5f, uint64(n), uint64(reads), uint64(pk), hashBytes(b))
	return plan, viols
}

func safeByte(b []byte, off int64) string {
	if off < 0 || off >= int64(len(b)) {
		return "out of range"
	}
	return string(b[off : off+1])
}

func (sc *SemErr) Run(t *core.Tape, env *Env) (any, []core.Violation) {
	if t.S("mode").Chance(1, 5) {
		return sc.runUserError(t, env)
	}
	p := sc.plan(t)
	st := env.Stats
	var viols []core.Violation
	if p.What == "" {
		st.Probe("c16/semerr/no-injection-site")
		return p, viols
	}
	report := func(prop, class, site, f string, a ...any) bool {
		v := core.Violationf(prop, class, site, f, a...)
		viols = append(viols, v)
		return v.Property == env.Prop && !env.Known[v.Key()]
	}
	check := func(route string, err error) {
		st.Steps++
		ec := classify(err)
		if ec.Kind != "semantic" {
			report("C16", "C16/semantic-error/type", route, "%s of %s into %s: the value at %q (%s, bytes %d..%d) cannot be converted but the call returned %v", route, clip([]byte(p.Text), 200), p.TypeStr, p.Ptr, p.What, p.Start, p.End, ec)
			return
		}
		if ec.Ptr != p.Ptr {
			report("C16", "C16/semantic-error/pointer", route, "%s: JSONPointer=%q, the unconvertible value is at %q (%s); text=%s type=%s", route, ec.Ptr, p.Ptr, p.What, clip([]byte(p.Text), 200), p.TypeStr)
			return
		}
		if ec.Off < int64(p.Start) || ec.Off > int64(p.End) {
			report("C16", "C16/semantic-error/offset", route, "%s: ByteOffset=%d, the unconvertible value occupies bytes %d..%d (%s); text=%s", route, ec.Off, p.Start, p.End, p.What, clip([]byte(p.Text), 200))
			return
		}
		st.Probe("c16/semerr/checked/" + route)
	}
	v1 := reflect.New(p.typ)
	check("Unmarshal", json.Unmarshal([]byte(p.Text), v1.Interface()))
	v2 := reflect.New(p.typ)
	sim := core.NewSimReader([]byte(p.Text), p.Read)
	check("UnmarshalRead", json.UnmarshalRead(sim, v2.Interface()))
	v3 := reflect.New(p.typ)
	dec := jsontext.NewDecoder(core.NewSimReader([]byte(p.Text), p.Read))
	check("UnmarshalDecode", json.UnmarshalDecode(dec, v3.Interface()))
	if sim.NShort > 0 {
		st.Nontrivial = true
	}
	st.Fault("read/short", sim.NShort)
	st.SigAdd(0x5e, hashBytes([]byte(p.TypeStr)), hashBytes([]byte(p.What+p.Ptr)))
	return p, viols
}
