package scen

import (
	"bytes"
	"errors"
	"fmt"
	"io"
	"reflect"
	"sort"
	"strings"
	"sync"
	"sync/atomic"
	"time"

	json "github.com/go-json-experiment/json"
	"github.com/go-json-experiment/json/jsontext"
	jsonv1 "github.com/go-json-experiment/json/v1"

	"verifsim/core"
	"verifsim/gen"
	"verifsim/peers"
)

// Hist is the isolation scenario (C18): a pool of heterogeneous calls is run
// sequentially in a drawn order or interleaved as cooperative tasks, with pool
// and cache faults in between; every call's outcome must equal the outcome of
// the same call executed alone from pristine pools and caches.
type Hist struct{}

const (
	hkMarshal = iota
	hkMarshalWrite
	hkUnmarshal
	hkUnmarshalRead
	hkFormat
	hkV1
	hkEncProg
	hkBig
	hkDeep
	hkBBReuse
	hkDetMap
	hkInvalidType
	hkSharedFuncs
	hkNum
)

var hkNames = []string{"Marshal", "MarshalWrite", "Unmarshal", "UnmarshalRead", "Format", "v1", "EncoderProgram", "Big", "Deep", "BytesBufferReuse", "DeterministicMap", "InvalidStructType", "SharedFuncs"}

// HistSpec is one self-contained call. Everything it needs is fixed at plan
// time from its own tape stream; executing it twice must give the same
// outcome if calls are isolated.
type HistSpec struct {
	Kind     int            `json:"kind"`
	KindName string         `json:"kind_name"`
	Desc     string         `json:"desc"`
	Opts     ArshalOpts     `json:"opts"`
	Input    string         `json:"input,omitempty"`
	Target   int            `json:"target,omitempty"`
	Read     core.ReadPlan  `json:"read"`
	Write    core.WritePlan `json:"write"`
	FmtOp    int            `json:"fmt_op,omitempty"`
	Calls    []EncCall      `json:"calls,omitempty"`
	Sub      int            `json:"sub,omitempty"`
	UseBB    bool           `json:"bytes_buffer,omitempty"`

	val reflect.Value
}

type HistPlan struct {
	Specs    []HistSpec              `json:"specs"`
	Beh      map[int]peers.Behaviour `json:"behaviours"`
	Tasks    [][]int                 `json:"tasks"` // spec indices per task (a single task = sequential order)
	PoolOps  []PoolOp                `json:"pool_ops"`
	Sched    []int                   `json:"-"`
	PoolSeed uint64                  `json:"pool_seed"`
}

// PoolOp is a fault applied to the process-wide pools/caches before a step.
type PoolOp struct {
	Step int `json:"step"`
	Kind int `json:"kind"` // 0 evict (double GC), 1 permute, 2 drop all, 3 reset arshaler cache, 4 conservation check only
}

var poolOpNames = []string{"evict(GC x2)", "permute", "drop", "reset-arshaler-cache", "conservation-check"}

// outcome is what a call returned, in comparable form.
type outcome struct {
	Out   string // bytes delivered/returned
	Val   string // rendered value
	Err   errClass
	Extra string
	Panic string
}

func (o outcome) String() string {
	return fmt.Sprintf("out=%s val=%s err=%v extra=%s panic=%s", clip([]byte(o.Out), 120), clip([]byte(o.Val), 120), o.Err, o.Extra, o.Panic)
}

func (sc *Hist) planSpec(t *core.Tape, env *Env, idx int, beh map[int]peers.Behaviour) HistSpec {
	s := t.S(fmt.Sprintf("call/%d/spec", idx))
	sp := HistSpec{}
	sp.Kind = s.Weighted(4, 3, 4, 3, 2, 1, 2, 1, 1, 1, 1, 1, 3)
	sp.KindName = hkNames[sp.Kind]
	sp.Opts = genArshalOpts(s)
	switch sp.Kind {
	case hkMarshal, hkMarshalWrite:
		g := &gen.GoGen{S: t.S(fmt.Sprintf("call/%d/value", idx)), Cfg: gen.GoCfg{MaxDepth: 1 + s.Draw(3), Peers: true, Adversarial: sp.Kind == hkMarshal, BigStructs: false}}
		g.SetIDBase(idx * 1000)
		typ := g.Type(0)
		sp.val = g.Value(typ, 0)
		if g.MultiMap {
			sp.Opts.Deterministic = true
		}
		sp.Desc = clipStr(typ.String(), 200)
		bs := t.S(fmt.Sprintf("call/%d/beh", idx))
		for _, pr := range g.Peers {
			b := peers.Behaviour{Payload: okPayloads[bs.Draw(len(okPayloads))]}
			if pr.Type == "PText" || pr.Type == "PAppend" {
				b = peers.Behaviour{Text: fmt.Sprint(textPayloads[bs.Draw(len(textPayloads))], "#", pr.ID)}
			} else if sp.Kind == hkMarshal && bs.Chance(1, 5) {
				b.Kind = []int{peers.BErr, peers.BPanic, peers.BUnsupported, peers.BReenter, peers.BTwo, peers.BOpen, peers.BIgnoredErrors, peers.BNestedFail}[bs.Draw(8)]
			}
			beh[pr.ID] = b
		}
		if sp.Kind == hkMarshalWrite {
			sp.UseBB = s.Chance(1, 4)
			if !sp.UseBB && s.Chance(1, 2) {
				// offset-keyed faults only: delivered bytes must not depend on buffer capacity
				if s.Bool() {
					sp.Write.DiskFullAt = 1 + gen.Size(s, 3000)
				} else {
					sp.Write.FaultAt = []core.WriteFault{{Off: gen.Size(s, 3000), Kind: core.WShort}}
				}
			}
		}
	case hkUnmarshal, hkUnmarshalRead:
		is := t.S(fmt.Sprintf("call/%d/input", idx))
		mutP := 3
		if sp.Kind == hkUnmarshalRead {
			mutP = 2
		}
		in := gen.Text(is, gen.JSONCfg{MaxBytes: []int{256, 2048, 8192}[is.Weighted(5, 3, 1)], MaxDepth: 2 + is.Draw(5), DupNames: true, InvalidUTF8: is.Chance(1, 8), CollideNames: is.Chance(1, 4)})
		faulty := sp.Kind == hkUnmarshalRead && is.Chance(1, 3)
		if !faulty && is.Chance(mutP, 8) {
			in = gen.Mutate(is, in)
		}
		sp.Input = string(in)
		sp.Target = is.Draw(len(decTargets))
		if is.Chance(1, 3) {
			// types with embedded fallback maps: they share per-type state across calls
			sp.Target = []int{5, 11, 12}[is.Draw(3)]
			if in2 := gen.Text(is, gen.JSONCfg{MaxBytes: 600, MaxDepth: 2}); len(in2) > 0 && !faulty {
				sp.Input = `{"k0":null,"u1":` + string(in2) + `,"u2":{"a":[1,2]},"u3":"` + strings.Repeat("z", is.Draw(200)) + `","u4":3}`
			}
		}
		sp.Desc = decTargets[sp.Target].Name
		if sp.Kind == hkUnmarshalRead {
			n := len(in)
			k := is.Draw(3)
			for i := 0; i < k; i++ {
				sp.Read.Cuts = append(sp.Read.Cuts, is.Draw(n+1))
			}
			if faulty {
				c := is.Draw(n + 1)
				sp.Read.Cuts = append(sp.Read.Cuts, c)
				sp.Read.FaultAt = []int{c}
			}
			sp.UseBB = !faulty && is.Chance(1, 5)
		}
	case hkFormat:
		is := t.S(fmt.Sprintf("call/%d/input", idx))
		in := gen.Text(is, gen.JSONCfg{MaxBytes: 1024, MaxDepth: 2 + is.Draw(4), DupNames: true})
		if is.Chance(1, 3) {
			in = gen.Mutate(is, in)
		}
		sp.Input = string(in)
		sp.FmtOp = is.Draw(6)
		sp.Desc = []string{"Format", "Compact", "Indent", "Canonicalize", "IsValid", "AppendFormat"}[sp.FmtOp]
	case hkV1:
		is := t.S(fmt.Sprintf("call/%d/input", idx))
		in := gen.Text(is, gen.JSONCfg{MaxBytes: 512, MaxDepth: 3, DupNames: true})
		if is.Chance(1, 3) {
			in = gen.Mutate(is, in)
		}
		sp.Input = string(in)
		sp.Sub = is.Draw(2)
		sp.Desc = []string{"v1.Unmarshal+v1.Marshal", "v1.Valid+v1.Compact"}[sp.Sub]
	case hkEncProg:
		cs := t.S(fmt.Sprintf("call/%d/calls", idx))
		text := gen.Text(cs, gen.JSONCfg{MaxBytes: 2048, MaxDepth: 2 + cs.Draw(4), DupNames: sp.Opts.Enc.AllowDup})
		sp.Calls = textToCalls(cs, text, 2)
		sp.Sub = cs.Draw(6) // >0: run on an Encoder that was used before and Reset (kinds of old and new writer vary)
	case hkBig:
		sp.Sub = s.Draw(3)
		sp.Desc = []string{"Marshal 1MiB string", "Unmarshal 1MiB doc", "Marshal 300KiB then small"}[sp.Sub]
	case hkDeep:
		sp.Sub = s.Draw(5)
		sp.Desc = []string{"Marshal 1200-deep []any", "Marshal cyclic map", "Marshal 1100-deep pointer chain", "Unmarshal 1500-deep text", "Marshal deep chain whose leaf panics once, then again"}[sp.Sub]
	case hkInvalidType:
		sp.Sub = s.Draw(12)
		sp.Desc = fmt.Sprintf("Marshal/Unmarshal of an invalid struct type (variant %d) at position %d", sp.Sub%3, sp.Sub/3)
	case hkSharedFuncs:
		sp.Sub = s.Draw(len(sharedSubs))
		sp.Input = sharedInputs[s.Draw(len(sharedInputs))]
		sp.Desc = sharedSubs[sp.Sub] + " with the history's one *Marshalers/*Unmarshalers/Options value"
	case hkDetMap:
		sp.Sub = 2 + s.Draw(40)
		sp.Desc = fmt.Sprintf("Deterministic(true) over maps with %d keys built in two insertion orders", sp.Sub)
	case hkBBReuse:
		is := t.S(fmt.Sprintf("call/%d/input", idx))
		sp.Input = string(gen.Text(is, gen.JSONCfg{MaxBytes: 64 + is.Draw(900), MaxDepth: 3}))
		sp.Sub = 40 + is.Draw(600)
		sp.Desc = "UnmarshalRead(bb); bb.Reset+refill; UnmarshalRead(other); UnmarshalRead(bb)"
	}
	return sp
}

func (sc *Hist) plan(t *core.Tape, env *Env) *HistPlan {
	p := &HistPlan{Beh: map[int]peers.Behaviour{}}
	ps := t.S("plan")
	n := 6 + ps.Draw(10)
	if env.Thorough {
		n = 6 + ps.Draw(35)
	}
	for i := 0; i < n; i++ {
		p.Specs = append(p.Specs, sc.planSpec(t, env, i, p.Beh))
	}
	// repeated specs (the same call twice in one history) are interesting too
	for i, k := 0, ps.Draw(3); i < k; i++ {
		j := ps.Draw(len(p.Specs))
		p.Specs = append(p.Specs, p.Specs[j])
	}
	// order / partition into tasks
	order := make([]int, len(p.Specs))
	for i := range order {
		order[i] = i
	}
	for i := len(order) - 1; i > 0; i-- {
		j := ps.Draw(i + 1)
		order[i], order[j] = order[j], order[i]
	}
	nt := 1
	if ps.Chance(2, 3) {
		nt = 2 + ps.Draw(15)
		if nt > len(order) {
			nt = len(order)
		}
	}
	p.Tasks = make([][]int, nt)
	for i, k := range order {
		p.Tasks[i%nt] = append(p.Tasks[i%nt], k)
	}
	fs := t.S("poolfaults")
	for i, k := 0, fs.Weighted(3, 3, 2, 2, 1); i < k; i++ {
		p.PoolOps = append(p.PoolOps, PoolOp{Step: fs.Draw(60), Kind: fs.Weighted(2, 3, 2, 2, 3)})
	}
	p.PoolOps = append(p.PoolOps, PoolOp{Step: 1 << 30, Kind: 4})
	sort.SliceStable(p.PoolOps, func(i, j int) bool { return p.PoolOps[i].Step < p.PoolOps[j].Step })
	p.PoolSeed = uint64(fs.Draw(1 << 30))
	return p
}

// ---------------------------------------------------------------------------
// deterministic value rendering (follows pointers, sorts map keys)

func renderValue(v reflect.Value, depth int, b *strings.Builder) {
	if depth > 60 {
		b.WriteString("<deep>")
		return
	}
	if !v.IsValid() {
		b.WriteString("<invalid>")
		return
	}
	switch v.Kind() {
	case reflect.Pointer:
		if v.IsNil() {
			b.WriteString("nil")
			return
		}
		b.WriteByte('&')
		renderValue(v.Elem(), depth+1, b)
	case reflect.Interface:
		if v.IsNil() {
			b.WriteString("nil")
			return
		}
		fmt.Fprintf(b, "(%s)", v.Elem().Type())
		renderValue(v.Elem(), depth+1, b)
	case reflect.Slice:
		if v.IsNil() {
			b.WriteString("nil[]")
			return
		}
		if v.Type().Elem().Kind() == reflect.Uint8 {
			fmt.Fprintf(b, "%q", v.Bytes())
			return
		}
		fallthrough
	case reflect.Array:
		b.WriteByte('[')
		for i := 0; i < v.Len(); i++ {
			if i > 0 {
				b.WriteByte(' ')
			}
			renderValue(v.Index(i), depth+1, b)
		}
		b.WriteByte(']')
	case reflect.Map:
		if v.IsNil() {
			b.WriteString("nil{}")
			return
		}
		type kv struct{ k, v string }
		var kvs []kv
		it := v.MapRange()
		for it.Next() {
			var kb, vb strings.Builder
			renderValue(it.Key(), depth+1, &kb)
			renderValue(it.Value(), depth+1, &vb)
			kvs = append(kvs, kv{kb.String(), vb.String()})
		}
		sort.Slice(kvs, func(i, j int) bool { return kvs[i].k < kvs[j].k })
		b.WriteByte('{')
		for i, e := range kvs {
			if i > 0 {
				b.WriteByte(' ')
			}
			b.WriteString(e.k)
			b.WriteByte(':')
			b.WriteString(e.v)
		}
		b.WriteByte('}')
	case reflect.Struct:
		b.WriteByte('{')
		for i := 0; i < v.NumField(); i++ {
			if i > 0 {
				b.WriteByte(' ')
			}
			b.WriteString(v.Type().Field(i).Name)
			b.WriteByte(':')
			renderValue(v.Field(i), depth+1, b)
		}
		b.WriteByte('}')
	case reflect.String:
		fmt.Fprintf(b, "%q", v.String())
	case reflect.Float32, reflect.Float64:
		fmt.Fprintf(b, "%x", v.Float())
	case reflect.Bool:
		fmt.Fprintf(b, "%v", v.Bool())
	case reflect.Int, reflect.Int8, reflect.Int16, reflect.Int32, reflect.Int64:
		fmt.Fprintf(b, "%d", v.Int())
	case reflect.Uint, reflect.Uint8, reflect.Uint16, reflect.Uint32, reflect.Uint64, reflect.Uintptr:
		fmt.Fprintf(b, "%d", v.Uint())
	default:
		if v.CanInterface() {
			fmt.Fprintf(b, "%v", v.Interface())
		} else {
			fmt.Fprintf(b, "<%s>", v.Kind())
		}
	}
}

func renderAny(x any) string {
	var b strings.Builder
	renderValue(reflect.ValueOf(x), 0, &b)
	return b.String()
}

// ---------------------------------------------------------------------------
// executing one spec

// snapshot is a byte slice handed back by the library, to be re-checked later.
type snapshot struct {
	spec int
	what string
	b    []byte
	copy []byte
}

type histRun struct {
	env    *Env
	plan   *HistPlan
	yield  func(string)
	snaps  []snapshot
	shared *sharedFuncs // nil: every call builds its own (baselines)
}

// sharedFuncs are the caller-owned option values that a program typically
// builds once and passes to every call: they carry a per-value cache inside
// the library, which must not make one call's result depend on another's.
type sharedFuncs struct {
	m    *json.Marshalers
	u    *json.Unmarshalers
	opts json.Options
}

func newSharedFuncs() *sharedFuncs {
	f := &sharedFuncs{}
	f.m = json.JoinMarshalers(
		json.MarshalToFunc(func(enc *jsontext.Encoder, v int) error {
			if v%2 == 0 {
				return errors.ErrUnsupported
			}
			return enc.WriteToken(jsontext.String(fmt.Sprint("odd:", v)))
		}),
		json.MarshalFunc(func(v string) ([]byte, error) {
			return jsontext.AppendQuote(nil, strings.ToUpper(v))
		}),
	)
	f.u = json.JoinUnmarshalers(
		json.UnmarshalFromFunc(func(dec *jsontext.Decoder, p *int) error {
			if dec.PeekKind() != '"' {
				return errors.ErrUnsupported
			}
			tok, err := dec.ReadToken()
			if err != nil {
				return err
			}
			*p = len(tok.String())
			return nil
		}),
		json.UnmarshalFromFunc(func(dec *jsontext.Decoder, p *string) error {
			if dec.PeekKind() != '0' {
				return errors.ErrUnsupported
			}
			v, err := dec.ReadValue()
			if err != nil {
				return err
			}
			*p = "number:" + string(v)
			return nil
		}),
	)
	f.opts = json.JoinOptions(json.WithMarshalers(f.m), json.WithUnmarshalers(f.u), json.Deterministic(true), jsontext.AllowDuplicateNames(true))
	return f
}

type histInner struct {
	X int
	S string
}

// histEmb embeds a pointer to an unexported struct type: when nil, the
// library cannot allocate it (v2 reports an error; v1 semantics too).
type histEmb struct {
	*histInner
	Y int
}

type histPlain struct {
	X int
	S string
	L []int
	M map[string]string
}

var sharedSubs = []string{"Unmarshal plain struct", "Unmarshal (v1 semantics) into nil embedded *unexported", "Unmarshal into allocated embedded *unexported", "Marshal plain struct", "Unmarshal map[string]int", "Unmarshal (v1 options) plain struct", "Unmarshal into nil embedded *unexported", "Marshal []any"}
var sharedInputs = []string{`{"X":5,"S":"abc","L":[1,"22",3],"M":{"a":"b","c":7}}`, `{"X":"five","S":12,"Y":3}`, `{"S":"s","X":4,"Y":"yy","L":null}`, `{"X":true}`, `{"X":1,"X":"zz"}`, `{"Y":2,"X":7}`}

func (h *histRun) execShared(sp *HistSpec) outcome {
	f := h.shared
	if f == nil {
		f = newSharedFuncs()
	}
	in := []byte(sp.Input)
	switch sp.Sub {
	case 0:
		var v histPlain
		err := json.Unmarshal(in, &v, f.opts)
		return outcome{Val: renderAny(&v), Err: classify(err)}
	case 1:
		var v histEmb
		err := json.Unmarshal(in, &v, f.opts, jsonv1.ReportErrorsWithLegacySemantics(true))
		return outcome{Val: renderAny(&v), Err: classify(err)}
	case 2:
		v := histEmb{histInner: &histInner{}}
		err := json.Unmarshal(in, &v, f.opts)
		return outcome{Val: renderAny(&v), Err: classify(err)}
	case 3:
		v := histPlain{X: len(in), S: sp.Input[:8], L: []int{1, 2, 3, len(in)}, M: map[string]string{"k": "v", "a": sp.Input[:3]}}
		out, err := json.Marshal(&v, f.opts)
		h.keep(0, "Marshal result", out)
		return outcome{Out: string(out), Err: classify(err)}
	case 4:
		var v map[string]int
		err := json.Unmarshal(in, &v, f.opts)
		return outcome{Val: renderAny(&v), Err: classify(err)}
	case 5:
		var v histPlain
		err := json.Unmarshal(in, &v, jsonv1.DefaultOptionsV1(), f.opts)
		return outcome{Val: renderAny(&v), Err: classify(err)}
	case 6:
		var v histEmb
		err := json.Unmarshal(in, &v, f.opts)
		return outcome{Val: renderAny(&v), Err: classify(err)}
	default:
		var x any
		json.Unmarshal(in, &x, jsontext.AllowDuplicateNames(true))
		out, err := json.Marshal([]any{x, 3, 4, "s", len(in)}, f.opts)
		h.keep(0, "Marshal result", out)
		return outcome{Out: string(out), Err: classify(err)}
	}
}

func (h *histRun) keep(spec int, what string, b []byte) {
	if len(h.snaps) < 512 && len(b) > 0 {
		h.snaps = append(h.snaps, snapshot{spec, what, b, append([]byte(nil), b...)})
	}
}

func (h *histRun) exec(idx int, sp *HistSpec) (o outcome) {
	defer func() {
		if r := recover(); r != nil {
			if pp, ok := r.(peers.PeerPanic); ok {
				o = outcome{Panic: fmt.Sprintf("peer-panic:%d", pp.ID)}
				return
			}
			if s, ok := r.(string); ok && strings.HasPrefix(s, "verifsim:") {
				panic(r)
			}
			o = outcome{Panic: "LIBRARY PANIC: " + fmt.Sprint(r)}
		}
	}()
	opts := sp.Opts.options()
	switch sp.Kind {
	case hkMarshal:
		out, err := json.Marshal(sp.val.Interface(), opts...)
		h.keep(idx, "Marshal result", out)
		return outcome{Out: string(out), Err: classify(err)}
	case hkMarshalWrite:
		var got []byte
		var err error
		if sp.Write.DiskFullAt > 0 || len(sp.Write.FaultAt) > 0 {
			if _, merr := json.Marshal(sp.val.Interface(), opts...); merr != nil {
				// a value that fails to marshal AND a scripted write fault: which of
				// the two is met first depends on the buffer capacity; the statement
				// is silent about it, so it is not compared
				return outcome{Extra: "skipped: value fails to marshal and a write fault is scripted"}
			}
		}
		if sp.UseBB {
			var bb bytes.Buffer
			err = json.MarshalWrite(&bb, sp.val.Interface(), opts...)
			got = append([]byte(nil), bb.Bytes()...)
			// the caller goes on using its buffer; what it holds must stay intact
			bb.WriteString("#caller's own bytes after the JSON#")
			h.keep(idx, "caller's bytes.Buffer after MarshalWrite", bb.Bytes())
		} else {
			sw := core.NewSimWriter(sp.Write)
			sw.Yield = h.yield
			err = json.MarshalWrite(sw, sp.val.Interface(), opts...)
			got = sw.Got
		}
		ec := classify(err)
		if ec.Kind != "" && ec.Kind != "injected" {
			// how much was flushed before a marshal error depends on the buffer
			// capacity, which legitimately depends on history
			return outcome{Err: ec, Extra: "delivered-not-compared"}
		}
		return outcome{Out: string(got), Err: ec}
	case hkUnmarshal:
		in := []byte(sp.Input)
		tgt := decTargets[sp.Target].New()
		err := json.Unmarshal(in, tgt, arshalOpts(sp.Opts.Enc.AllowUTF8, sp.Opts.Enc.AllowDup)...)
		before := renderAny(tgt)
		ec := classify(err)
		extra := semValue(err)
		// the caller may now reuse its buffer
		for i := range in {
			in[i] = '#'
		}
		after := renderAny(tgt)
		if after != before {
			return outcome{Val: before, Err: ec, Extra: "VALUE CHANGED WHEN THE INPUT BUFFER WAS OVERWRITTEN: " + clipStr(after, 200)}
		}
		if ex2 := semValue(err); ex2 != extra {
			return outcome{Val: before, Err: ec, Extra: "ERROR VALUE CHANGED WHEN THE INPUT BUFFER WAS OVERWRITTEN: " + extra + " -> " + ex2}
		}
		return outcome{Val: before, Err: ec, Extra: extra}
	case hkUnmarshalRead:
		tgt := decTargets[sp.Target].New()
		var err error
		o2 := arshalOpts(sp.Opts.Enc.AllowUTF8, sp.Opts.Enc.AllowDup)
		if sp.UseBB {
			err = json.UnmarshalRead(bytes.NewBufferString(sp.Input), tgt, o2...)
		} else {
			sr := core.NewSimReader([]byte(sp.Input), sp.Read)
			sr.Yield = h.yield
			err = json.UnmarshalRead(sr, tgt, o2...)
		}
		ec := classify(err)
		if ec.Kind == "injected" {
			return outcome{Err: ec} // the partially filled target is not specified
		}
		return outcome{Val: renderAny(tgt), Err: ec, Extra: semValue(err)}
	case hkFormat:
		orig := []byte(sp.Input)
		v := jsontext.Value(orig)
		eo := sp.Opts.Enc
		fo := eo.options()
		var err error
		switch sp.FmtOp {
		case 0:
			err = v.Format(fo...)
		case 1:
			err = v.Compact(fo...)
		case 2:
			err = v.Indent(fo...)
		case 3:
			err = v.Canonicalize()
		case 4:
			return outcome{Extra: fmt.Sprint(v.IsValid(jsontext.AllowInvalidUTF8(eo.AllowUTF8), jsontext.AllowDuplicateNames(eo.AllowDup)))}
		case 5:
			if len(sp.Input)%2 == 0 {
				dst, e2 := jsontext.AppendFormat([]byte("prefix:"), sp.Input, fo...)
				h.keep(idx, "AppendFormat result", dst)
				return outcome{Out: string(dst), Err: classify(e2)}
			}
			// nil dst, byte-slice source that is compacted first (so it may
			// already be in the requested format); afterwards the caller
			// reuses its source buffer
			src := jsontext.Value(sp.Input)
			src.Compact()
			dst, e2 := jsontext.AppendFormat(nil, []byte(src), fo...)
			res := string(dst)
			for i := range src {
				src[i] = '#'
			}
			if string(dst) != res {
				return outcome{Out: res, Err: classify(e2), Extra: "RESULT CHANGED WHEN THE INPUT BUFFER WAS OVERWRITTEN: AppendFormat result " + clipStr(string(dst), 80)}
			}
			h.keep(idx, "AppendFormat result", dst)
			return outcome{Out: res, Err: classify(e2)}
		}
		h.keep(idx, "formatted value", v)
		// the buffer the caller passed in still belongs to the caller: whatever it
		// holds now must not be touched by later calls
		h.keep(idx, "caller's original buffer after Format", orig)
		return outcome{Out: string(v), Err: classify(err)}
	case hkV1:
		if sp.Sub == 0 {
			var x any
			err := jsonv1.Unmarshal([]byte(sp.Input), &x)
			out, err2 := jsonv1.Marshal(x)
			h.keep(idx, "v1.Marshal result", out)
			return outcome{Out: string(out), Val: renderAny(&x), Err: errClass{Kind: fmt.Sprint(err != nil, err2 != nil)}}
		}
		var bb bytes.Buffer
		err := jsonv1.Compact(&bb, []byte(sp.Input))
		return outcome{Out: bb.String(), Extra: fmt.Sprint(jsonv1.Valid([]byte(sp.Input))), Err: errClass{Kind: fmt.Sprint(err != nil)}}
	case hkEncProg:
		// the program's destination: a bytes.Buffer or a plain writer
		var bb bytes.Buffer
		sw := core.NewSimWriter(core.WritePlan{})
		plainNew := sp.Sub == 2 || sp.Sub == 3 || sp.Sub == 4
		var dst io.Writer = &bb
		delivered := func() string { return bb.String() }
		if plainNew {
			dst = sw
			delivered = func() string { return string(sw.Got) }
		}
		var e *jsontext.Encoder
		if sp.Sub == 0 {
			e = jsontext.NewEncoder(dst, sp.Opts.Enc.options()...)
		} else {
			// an Encoder with a past: a half-written, failed previous use whose
			// bytes are still buffered (or were refused by the writer), then Reset
			var junk io.Writer = new(bytes.Buffer)
			switch sp.Sub {
			case 2, 5:
				junk = core.NewSimWriter(core.WritePlan{})
			case 3:
				junk = core.NewSimWriter(core.WritePlan{FaultAt: []core.WriteFault{{Off: 3, Kind: core.WShort}}})
			}
			e = jsontext.NewEncoder(junk)
			if sp.Sub == 3 {
				e.WriteToken(jsontext.String("a top-level value that the old writer takes only three bytes of"))
			}
			e.WriteToken(jsontext.BeginObject)
			e.WriteToken(jsontext.String("left-open"))
			e.WriteToken(jsontext.BeginArray)
			e.WriteValue(jsontext.Value(`{"a":1,"a":2}`))
			e.Reset(dst, sp.Opts.Enc.options()...)
		}
		var firstErr errClass
		for _, c := range sp.Calls {
			if err := encDo(e, c); err != nil && firstErr.Kind == "" {
				firstErr = classify(err)
			}
			if h.yield != nil {
				h.yield("encprog")
			}
		}
		closeEnc(e)
		extra := fmt.Sprint(e.OutputOffset())
		if sp.Sub != 0 {
			// the same program on a fresh Encoder must give the same bytes
			var fb bytes.Buffer
			fe := jsontext.NewEncoder(&fb, sp.Opts.Enc.options()...)
			for _, c := range sp.Calls {
				encDo(fe, c)
			}
			closeEnc(fe)
			if fb.String() != delivered() || fe.OutputOffset() != e.OutputOffset() {
				extra = fmt.Sprintf("RESET ENCODER DIFFERS FROM FRESH (past kind %d): reset one delivered %s (offset %d), fresh one %s (offset %d)", sp.Sub, clipStr(delivered(), 100), e.OutputOffset(), clipStr(fb.String(), 100), fe.OutputOffset())
			}
		}
		return outcome{Out: delivered(), Err: firstErr, Extra: extra}
	case hkBig:
		switch sp.Sub {
		case 0:
			big := strings.Repeat("0123456789abcdef", 1<<16)
			out, err := json.Marshal(map[string]any{"big": big, "n": 1}, json.Deterministic(true))
			return outcome{Out: fmt.Sprint(len(out), hashBytes(out)), Err: classify(err)}
		case 1:
			var b bytes.Buffer
			b.WriteString(`{"a":[`)
			for i := 0; i < 60000; i++ {
				if i > 0 {
					b.WriteByte(',')
				}
				b.WriteString(`"prefix__xy__suffix"`)
			}
			b.WriteString(`]}`)
			var x any
			err := json.Unmarshal(b.Bytes(), &x)
			return outcome{Val: fmt.Sprint(len(renderAny(&x))), Err: classify(err)}
		default:
			out, err := json.Marshal([]string{strings.Repeat("x", 300<<10)})
			out2, err2 := json.Marshal([]int{1, 2, 3})
			h.keep(idx, "Marshal result", out2)
			return outcome{Out: fmt.Sprint(len(out), hashBytes(out)) + string(out2), Err: classify(errors.Join(err, err2))}
		}
	case hkDeep:
		switch sp.Sub {
		case 0:
			var v any = "leaf"
			for i := 0; i < 1200; i++ {
				v = []any{v}
			}
			out, err := json.Marshal(v)
			return outcome{Out: fmt.Sprint(len(out), hashBytes(out)), Err: classify(err)}
		case 1:
			m := map[string]any{}
			var v any = m
			for i := 0; i < 1005; i++ {
				v = map[string]any{"k": v}
			}
			m["cycle"] = v
			out, err := json.Marshal(v)
			e := classify(err)
			e.Ptr, e.Off = "", 0
			return outcome{Out: fmt.Sprint(len(out)), Err: e}
		case 2:
			type node struct {
				Next *node `json:"n,omitempty"`
				V    int   `json:"v"`
			}
			var head *node
			for i := 0; i < 1100; i++ {
				head = &node{Next: head, V: i}
			}
			out, err := json.Marshal(head)
			return outcome{Out: fmt.Sprint(len(out), hashBytes(out)), Err: classify(err)}
		case 4:
			type node struct {
				Next *node `json:"n,omitempty"`
				Leaf any   `json:"leaf,omitempty"`
			}
			build := func(leaf any) *node {
				head := &node{Leaf: leaf}
				for i := 0; i < 1100; i++ {
					head = &node{Next: head}
				}
				return head
			}
			a := build(peers.NewPOnce())
			func() {
				defer func() {
					if r := recover(); r != nil {
						if _, ok := r.(peers.PeerPanic); !ok {
							panic(r)
						}
					}
				}()
				json.Marshal(a) // the leaf panics 1101 levels down; the caller recovers
			}()
			out, err := json.Marshal(a) // the leaf behaves now
			fired := peers.NewPOnce()
			func() {
				defer func() { recover() }()
				fired.MarshalJSONTo(nil)
			}()
			want, werr := json.Marshal(build(fired))
			extra := ""
			if (err == nil) != (werr == nil) || !bytes.Equal(out, want) {
				extra = fmt.Sprintf("MARSHAL AFTER A RECOVERED PANIC DIFFERS: err=%v, an identical fresh value gives err=%v (%d vs %d bytes)", classify(err), classify(werr), len(out), len(want))
			}
			return outcome{Out: fmt.Sprint(len(out), hashBytes(out)), Err: classify(err), Extra: extra}
		default:
			text := strings.Repeat("[", 1500) + strings.Repeat("]", 1500)
			var x any
			err := json.Unmarshal([]byte(text), &x)
			return outcome{Val: fmt.Sprint(len(renderAny(&x))), Err: classify(err)}
		}
	}
	switch sp.Kind {
	case hkSharedFuncs:
		return h.execShared(sp)
	case hkInvalidType:
		// the same unusable type at different positions in different calls: the
		// error (incl. its position) must be the one for THIS call
		var v any
		switch sp.Sub % 3 {
		case 0:
			v = badDupT{}
		case 1:
			v = badTagT{}
		default:
			v = badEmbedT{}
		}
		switch sp.Sub / 3 {
		case 1:
			v = []any{1, v}
		case 2:
			v = map[string]any{"in": []any{"x", "y", v}}
		case 3:
			v = struct {
				Pad string
				V   any
			}{strings.Repeat("p", 100), v}
		}
		out, err := json.Marshal(v)
		tgt := reflect.New(reflect.TypeOf(v))
		uerr := json.Unmarshal([]byte(`[1,{"A":1}]`), tgt.Interface())
		return outcome{Out: string(out), Err: classify(err), Extra: classify(uerr).String()}
	case hkDetMap:
		out1, out2, err := DetMapBytes(sp.Sub)
		extra := ""
		if err != nil || !bytes.Equal(out1, out2) {
			extra = fmt.Sprintf("DETERMINISTIC OUTPUT DEPENDS ON INSERTION ORDER: %s vs %s (err %v)", clip(out1, 80), clip(out2, 80), err)
		}
		return outcome{Out: string(out1), Extra: extra}
	case hkBBReuse:
		msg1 := `{"first":[` + strings.Repeat(`"aaaaaaaa",`, sp.Sub/11) + `1]}`
		msg2 := sp.Input
		bb := new(bytes.Buffer)
		bb.WriteString(msg1)
		var x1, x2, y, want any
		json.UnmarshalRead(bb, &x1)
		bb.Reset()
		bb.WriteString(msg2)
		if h.yield != nil {
			h.yield("bbreuse")
		}
		other := core.NewSimReader([]byte(`{"unrelated":"`+strings.Repeat("ZZZZZZZZ", 8+sp.Sub/8)+`"}`), core.ReadPlan{MaxChunk: 1 + sp.Sub%97})
		json.UnmarshalRead(other, &y)
		err := json.UnmarshalRead(bb, &x2)
		werr := json.Unmarshal([]byte(msg2), &want)
		extra := ""
		if classify(err) != classify(werr) || renderAny(&x2) != renderAny(&want) {
			extra = fmt.Sprintf("REUSED bytes.Buffer DECODES DIFFERENTLY: got %s err=%v ; want %s err=%v", clipStr(renderAny(&x2), 100), classify(err), clipStr(renderAny(&want), 100), classify(werr))
		}
		return outcome{Val: renderAny(&x2), Err: classify(err), Extra: extra}
	}
	return outcome{}
}

// semValue renders the JSON value a SemanticError carries (it is handed back
// to the caller and must not alias buffers that get reused).
func semValue(err error) string {
	var se *json.SemanticError
	if errors.As(err, &se) && se.JSONValue != nil {
		return "jsonvalue=" + string(se.JSONValue)
	}
	return ""
}

// ---------------------------------------------------------------------------

func (sc *Hist) Run(t *core.Tape, env *Env) (any, []core.Violation) {
	p := sc.plan(t, env)
	st := env.Stats
	var viols []core.Violation
	report := func(prop, class, site, f string, a ...any) bool {
		v := core.Violationf(prop, class, site, f, a...)
		viols = append(viols, v)
		return v.Property == env.Prop && !env.Known[v.Key()]
	}
	penv := &peers.Env{Beh: p.Beh}
	peers.Cur = penv
	defer func() { peers.Cur = &peers.Env{} }()

	// Baselines: each spec alone, from pristine pools and caches.
	base := make([]outcome, len(p.Specs))
	{
		h := &histRun{env: env, plan: p}
		for i := range p.Specs {
			core.ResetWorld(true)
			base[i] = h.exec(i, &p.Specs[i])
			if strings.HasPrefix(base[i].Panic, "LIBRARY PANIC") {
				// C20's business; for C18 the history goes on (a call that panics the
				// same way alone and inside the history is not history-dependent, but
				// what it leaves behind for later calls is still checked)
				if report("C20", "C20/panic", hkNames[p.Specs[i].Kind], "spec %d alone: %s", i, base[i].Panic) || env.Prop != "C18" {
					return p, viols
				}
			}
		}
	}
	core.ResetWorld(true)

	// The history.
	sched := core.NewSched()
	h := &histRun{env: env, plan: p, shared: newSharedFuncs()}
	multi := len(p.Tasks) > 1
	if multi {
		h.yield = sched.Yield
		penv.Yield = sched.Yield
	}
	got := make([]outcome, len(p.Specs))
	done := make([]bool, len(p.Specs))
	for ti, specs := range p.Tasks {
		specs := specs
		sched.Go(fmt.Sprintf("task%d", ti), func(tk *core.Task) {
			for _, k := range specs {
				got[k] = h.exec(k, &p.Specs[k])
				done[k] = true
				sched.Yield("between-calls")
			}
		})
	}
	ss := t.S("sched")
	poolIdx := 0
	between := func(step int) {
		for poolIdx < len(p.PoolOps) && p.PoolOps[poolIdx].Step <= step {
			sc.poolFault(p, p.PoolOps[poolIdx], penv, st, report)
			poolIdx++
		}
	}
	budget := 200000
	err := sched.Run(func(n int) int {
		// mostly keep running the same task, sometimes switch (draw 0 = first runnable)
		return ss.Draw(n)
	}, between, budget)
	if err != nil {
		report("C20", "C20/livelock/scheduler-budget", "hist", "%v", err)
		return p, viols
	}
	for _, tk := range schedTasks(sched) {
		if tk.Panic != nil {
			report("C20", "C20/panic", "hist-task", "task %s died: %v\n%s", tk.Name, tk.Panic, clipStr(tk.PanicStk, 1500))
			return p, viols
		}
	}
	// final conservation check over all pools
	sc.poolFault(p, PoolOp{Kind: 4}, penv, st, report)

	st.Steps += int64(sched.Steps)
	for i := range p.Specs {
		if !done[i] {
			continue
		}
		if strings.HasPrefix(got[i].Panic, "LIBRARY PANIC") && !strings.HasPrefix(base[i].Panic, "LIBRARY PANIC") {
			if report("C20", "C20/panic", hkNames[p.Specs[i].Kind], "spec %d inside the history: %s", i, got[i].Panic) {
				return p, viols
			}
			report("C18", "C18/panic-only-inside-history", hkNames[p.Specs[i].Kind], "spec %d panics inside the history but not alone: %s", i, got[i].Panic)
			return p, viols
		}
		if strings.Contains(got[i].Extra, "RESULT CHANGED WHEN THE INPUT BUFFER WAS OVERWRITTEN") {
			if report("C18", "C18/result-aliases-input-buffer", hkNames[p.Specs[i].Kind], "spec %d (%s): %s", i, p.Specs[i].Desc, got[i].Extra) {
				return p, viols
			}
		} else if strings.Contains(got[i].Extra, "CHANGED WHEN THE INPUT BUFFER WAS OVERWRITTEN") {
			if report("C18", "C18/result-aliases-input-buffer", hkNames[p.Specs[i].Kind], "spec %d (%s): %s", i, p.Specs[i].Desc, got[i].Extra) {
				return p, viols
			}
		}
		if strings.HasPrefix(got[i].Extra, "DETERMINISTIC OUTPUT DEPENDS") {
			if report("C18", "C18/deterministic-depends-on-insertion-order", "Marshal", "spec %d: %s", i, got[i].Extra) {
				return p, viols
			}
		}
		if strings.HasPrefix(got[i].Extra, "MARSHAL AFTER A RECOVERED PANIC DIFFERS") || strings.HasPrefix(got[i].Extra, "REUSED bytes.Buffer DECODES DIFFERENTLY") {
			if report("C18", "C18/depends-on-earlier-call", hkNames[p.Specs[i].Kind], "spec %d (%s): %s", i, p.Specs[i].Desc, got[i].Extra) {
				return p, viols
			}
		}
		if strings.HasPrefix(got[i].Extra, "RESET ENCODER DIFFERS") {
			if report("C18", "C18/encoder-reset-not-clean", "EncoderProgram", "spec %d: output %s ; %s", i, clip([]byte(got[i].Out), 100), got[i].Extra) {
				return p, viols
			}
		}
		if got[i] != base[i] {
			cls := "C18/differs-from-alone"
			switch {
			case got[i].Err != base[i].Err:
				cls += "/error"
			case got[i].Out != base[i].Out:
				cls += "/bytes"
			case got[i].Val != base[i].Val:
				cls += "/value"
			}
			if report("C18", cls, hkNames[p.Specs[i].Kind], "spec %d (%s %s): inside the history: %v ; alone from pristine state: %v", i, hkNames[p.Specs[i].Kind], p.Specs[i].Desc, got[i], base[i]) {
				return p, viols
			}
		}
	}
	// immutability of everything handed back
	for _, sn := range h.snaps {
		if !bytes.Equal(sn.b, sn.copy) {
			if report("C18", "C18/returned-bytes-altered-later", hkNames[p.Specs[sn.spec].Kind], "%s of spec %d was altered by a later call: now %s, was %s", sn.what, sn.spec, clip(sn.b, 100), clip(sn.copy, 100)) {
				return p, viols
			}
		}
	}
	for _, f := range penv.Findings {
		report("C17", "C17/peer-side-finding", "hist", "%s", f)
	}
	st.ProbeN("hist/context-switches", sched.Switch)
	st.ProbeN("hist/calls", len(p.Specs))
	for i := range p.Specs {
		st.Probe("hist/kind/" + hkNames[p.Specs[i].Kind])
		if base[i].Err.Kind != "" {
			st.Probe("hist/failing-call/" + base[i].Err.Kind)
		}
		if base[i].Panic != "" {
			st.Probe("hist/peer-panic-recovered")
		}
	}
	if multi && sched.Switch > len(p.Tasks) {
		st.Nontrivial = true
	}
	if len(p.PoolOps) > 1 {
		st.Nontrivial = true
	}
	st.SigAdd(0x18, sched.SigHash, uint64(len(p.Tasks)), uint64(len(p.Specs)))
	for _, op := range p.PoolOps {
		st.SigAdd(uint64(op.Kind), uint64(op.Step))
	}
	for i := range p.Specs {
		st.SigAdd(uint64(p.Specs[i].Kind), hashBytes([]byte(got[i].String())))
	}
	return p, viols
}

func schedTasks(s *core.Sched) []*core.Task { return s.Tasks() }

func (sc *Hist) poolFault(p *HistPlan, op PoolOp, penv *peers.Env, st *core.Stats, report func(prop, class, site, f string, a ...any) bool) {
	st.Fault("pool/"+poolOpNames[op.Kind], 1)
	switch op.Kind {
	case 0:
		core.EvictPools()
	case 3:
		json.VerifResetCaches()
	case 1, 2, 4:
		ps := core.Pools()
		seen := map[any]string{}
		for _, name := range core.PoolNames() {
			objs := core.DrainPool(ps[name])
			for _, o := range objs {
				if prev, dup := seen[o]; dup {
					report("C18", "C18/pool-conservation/object-pooled-twice", name, "the same %T sits in the pools twice (%s and %s): a double Put lets two calls share it", o, prev, name)
				}
				seen[o] = name
				if penv.InUse[o] > 0 {
					report("C18", "C18/pool-conservation/pooled-while-in-use", name, "a %T that a parked task is still using inside a user callback sits in pool %s", o, name)
				}
			}
			if op.Kind == 2 {
				continue // drop
			}
			if op.Kind == 1 && len(objs) > 1 {
				// seeded permutation
				r := p.PoolSeed
				for i := len(objs) - 1; i > 0; i-- {
					r = core.Mix(r, uint64(i))
					j := int(r % uint64(i+1))
					objs[i], objs[j] = objs[j], objs[i]
				}
			}
			dedup := map[any]bool{}
			for _, o := range objs {
				if !dedup[o] {
					dedup[o] = true
					ps[name].Put(o)
				}
			}
		}
	}
}

// ---------------------------------------------------------------------------
// Auxiliary, outside the deterministic core: the same call pool on real
// goroutines under the race detector. The race detector has no false
// positives; a finding carries the seed but replays only probabilistically.

// RaceResult is what the race run reports.
type RaceResult struct {
	Specs      int      `json:"specs"`
	Calls      int64    `json:"calls"`
	Goroutines int      `json:"goroutines"`
	Mismatches []string `json:"mismatches"`
	WallS      float64  `json:"wall_s"`
	Rounds     int      `json:"rounds_with_cold_caches"`
}

// RunRace builds a pool of calls from seed, computes every outcome alone,
// then runs them concurrently for the given duration.
func RunRace(seed uint64, goroutines int, dur time.Duration) *RaceResult {
	t := core.NewTape(seed)
	env := &Env{Prop: "C18", Stats: core.NewStats()}
	sc := &Hist{}
	beh := map[int]peers.Behaviour{}
	var specs []HistSpec
	for i := 0; i < 120; i++ {
		sp := sc.planSpec(t, env, i, beh)
		if sp.Kind == hkBig || sp.Kind == hkDeep {
			if i%3 != 0 {
				continue // keep a few of the heavy ones only
			}
		}
		specs = append(specs, sp)
	}
	peers.Cur = &peers.Env{Beh: beh, Quiet: true}
	base := make([]outcome, len(specs))
	h0 := &histRun{env: env}
	for i := range specs {
		base[i] = h0.exec(i, &specs[i])
	}
	res := &RaceResult{Specs: len(specs), Goroutines: goroutines}
	var mu sync.Mutex
	var calls atomic.Int64
	t0 := time.Now()
	deadline := t0.Add(dur)
	// Rounds: before each round the process-wide caches are emptied (while no
	// goroutine runs), so that the goroutines of the round race to be the first
	// user of every type, of the shared Marshalers/Unmarshalers values and of
	// the pools - lazily built state is where unsynchronised publication hides.
	roundLen := dur / 8
	if roundLen > 4*time.Second {
		roundLen = 4 * time.Second
	}
	for round := 0; time.Now().Before(deadline); round++ {
		core.ResetWorld(true)
		shared := newSharedFuncs()
		roundEnd := time.Now().Add(roundLen)
		if roundEnd.After(deadline) {
			roundEnd = deadline
		}
		var wg sync.WaitGroup
		start := make(chan struct{})
		for g := 0; g < goroutines; g++ {
			wg.Add(1)
			go func(g int) {
				defer wg.Done()
				h := &histRun{env: env, shared: shared}
				// in even rounds all goroutines walk the specs in the same order
				// (first uses of a type coincide), in odd rounds in their own
				r := core.Mix(seed, uint64(round))
				if round%2 == 1 {
					r = core.Mix(r, uint64(g))
				}
				<-start
				for time.Now().Before(roundEnd) {
					r = core.Mix(r, 1)
					i := int(r % uint64(len(specs)))
					got := h.exec(i, &specs[i])
					h.snaps = h.snaps[:0]
					calls.Add(1)
					if got != base[i] {
						mu.Lock()
						if len(res.Mismatches) < 5 {
							res.Mismatches = append(res.Mismatches, fmt.Sprintf("spec %d (%s %s): concurrently %v ; alone %v", i, hkNames[specs[i].Kind], specs[i].Desc, got, base[i]))
						}
						mu.Unlock()
					}
				}
			}(g)
		}
		close(start)
		wg.Wait()
		res.Rounds++
	}
	res.Calls = calls.Load()
	res.WallS = time.Since(t0).Seconds()
	return res
}

type badDupT struct {
	A int `json:"x"`
	B int `json:"x"`
}
type badTagT struct {
	A int `json:"a,omitempty,bogus:option"`
	B int `json:",string,string"`
}
type badEmbedT struct {
	A int
	R map[int]int `json:",embed"`
}

// DetMapBytes marshals the same key/value set, built in two different
// insertion orders and through different map types, with Deterministic(true).
func DetMapBytes(n int) ([]byte, []byte, error) {
	type kv struct {
		k string
		v any
	}
	var kvs []kv
	for i := 0; i < n; i++ {
		k := fmt.Sprintf("key-%03d", (i*7919)%1000)
		if i%5 == 0 {
			k = []string{"é", "z", "A", "", "a/b", "😀", "~", "10", "9"}[i/5%9] + fmt.Sprint(i)
		}
		var v any = float64(i)
		if i%4 == 1 {
			v = map[string]any{"b": 1.0, "a": []any{nil, "x"}, "c": map[string]any{"z": true, "y": false}}
		}
		kvs = append(kvs, kv{k, v})
	}
	m1 := map[string]any{}
	for _, e := range kvs {
		m1[e.k] = e.v
	}
	m2 := make(map[string]any, 4*n)
	for i := len(kvs) - 1; i >= 0; i-- {
		m2[kvs[i].k] = kvs[i].v
	}
	for i := 0; i < n; i++ { // churn: delete and re-insert so that the internal layout differs
		if i%3 == 0 {
			delete(m2, kvs[i].k)
		}
	}
	for i := 0; i < n; i++ {
		if i%3 == 0 {
			m2[kvs[i].k] = kvs[i].v
		}
	}
	a, err := json.Marshal(m1, json.Deterministic(true))
	if err != nil {
		return nil, nil, err
	}
	b, err := json.Marshal(struct{ M map[string]any }{m2}, json.Deterministic(true))
	if err != nil {
		return a, nil, err
	}
	if len(b) > 6 {
		b = b[5 : len(b)-1] // strip {"M": and }
	}
	return a, b, nil
}
