// Package scen holds the scenario families (dec, enc, arshal, hist): plan
// builders, executors and monitors.
package scen

import (
	"errors"
	"fmt"
	"io"
	"reflect"

	json "github.com/go-json-experiment/json"
	"github.com/go-json-experiment/json/jsontext"

	"verifsim/core"
)

// Env is what a scenario run receives.
type Env struct {
	Prop     string // armed property
	Tier     string
	Stats    *core.Stats
	WantPlan bool // render the plan (for samples/replay)
	Thorough bool
	Known    map[string]bool // known-finding keys: recorded, but they do not stop a run
}

// Scenario is one family of simulated runs.
type Scenario interface {
	Run(t *core.Tape, env *Env) (plan any, viols []core.Violation)
}

// errClass is the comparable shape of an error; text is never compared.
type errClass struct {
	Kind string // "", "EOF", "injected", "syntactic", "semantic", other type name
	Off  int64
	Ptr  string
	Sent string // sentinel identity
}

func (e errClass) String() string {
	if e.Kind == "" {
		return "nil"
	}
	p := e.Ptr
	if len(p) > 80 {
		p = p[:40] + "..." + p[len(p)-30:]
	}
	return fmt.Sprintf("%s{off=%d ptr=%q sent=%s}", e.Kind, e.Off, p, e.Sent)
}

func sentinel(err error) string {
	switch {
	case errors.Is(err, jsontext.ErrDuplicateName):
		return "dupname"
	case errors.Is(err, jsontext.ErrNonStringName):
		return "nonstringname"
	case errors.Is(err, io.ErrUnexpectedEOF):
		return "unexpectedEOF"
	case errors.Is(err, core.ErrInjected):
		return "injected"
	case errors.Is(err, errors.ErrUnsupported):
		return "unsupported"
	}
	return "other"
}

func classify(err error) errClass {
	if err == nil {
		return errClass{}
	}
	if err == io.EOF {
		return errClass{Kind: "EOF"}
	}
	if errors.Is(err, core.ErrInjected) {
		return errClass{Kind: "injected"}
	}
	var sem *json.SemanticError
	if errors.As(err, &sem) {
		t := ""
		if sem.GoType != nil {
			t = sem.GoType.String()
		}
		return errClass{Kind: "semantic", Off: sem.ByteOffset, Ptr: string(sem.JSONPointer), Sent: sentinel(err) + "/" + t + "/" + sem.JSONKind.String()}
	}
	var syn *jsontext.SyntacticError
	if errors.As(err, &syn) {
		return errClass{Kind: "syntactic", Off: syn.ByteOffset, Ptr: string(syn.JSONPointer), Sent: sentinel(err)}
	}
	return errClass{Kind: "other:" + reflect.TypeOf(err).String(), Sent: sentinel(err)}
}

// rebase shifts the offset of an error class (after a decoder hand-off).
func (e errClass) rebase(base int64) errClass {
	if e.Kind == "syntactic" || e.Kind == "semantic" {
		e.Off += base
	}
	return e
}

type idxEntry struct {
	K byte
	N int64
}

// obs is the set of position observers after a call.
type obs struct {
	Off   int64
	Depth int
	Ptr   string
	Idx   []idxEntry // level 0.. (all if depth<=12, else first 4 and last 8)
}

func idxLevels(depth int) []int {
	if depth <= 12 {
		ls := make([]int, depth+1)
		for i := range ls {
			ls[i] = i
		}
		return ls
	}
	ls := []int{0, 1, 2, 3}
	for i := depth - 7; i <= depth; i++ {
		ls = append(ls, i)
	}
	return ls
}

func (o obs) equal(p obs) bool {
	if o.Off != p.Off || o.Depth != p.Depth || o.Ptr != p.Ptr || len(o.Idx) != len(p.Idx) {
		return false
	}
	for i := range o.Idx {
		if o.Idx[i] != p.Idx[i] {
			return false
		}
	}
	return true
}

func (o obs) String() string {
	return fmt.Sprintf("off=%d depth=%d ptr=%q idx=%v", o.Off, o.Depth, o.Ptr, o.Idx)
}

type stackObserver interface {
	StackDepth() int
	StackIndex(int) (jsontext.Kind, int64)
	StackPointer() jsontext.Pointer
}

func observe(c stackObserver, off int64, withPtr bool) obs {
	d := c.StackDepth()
	o := obs{Off: off, Depth: d}
	if withPtr && d <= 256 {
		// (a pointer 10000 levels deep is 20-40 KB; asked after each of 40000
		// calls that would be gigabytes - deep pointers are sampled by C20)
		o.Ptr = string(c.StackPointer())
	}
	for _, l := range idxLevels(d) {
		k, n := c.StackIndex(l)
		o.Idx = append(o.Idx, idxEntry{byte(k), n})
	}
	return o
}

func clip(b []byte, n int) string {
	if len(b) <= n {
		return fmt.Sprintf("%q", b)
	}
	return fmt.Sprintf("%q...(%d bytes)", b[:n], len(b))
}

func hashBytes(b []byte) uint64 {
	h := uint64(14695981039346656037)
	for _, c := range b {
		h ^= uint64(c)
		h *= 1099511628211
	}
	return h
}

// Part is one weighted member of a Multi scenario.
type Part struct {
	W int
	S Scenario
}

// Multi draws which member scenario a run executes (label "which").
type Multi struct {
	Parts []Part
}

type multiPlan struct {
	Which int `json:"which"`
	Plan  any `json:"plan"`
}

func (m *Multi) Run(t *core.Tape, env *Env) (any, []core.Violation) {
	ws := make([]int, len(m.Parts))
	for i, p := range m.Parts {
		ws[i] = p.W
	}
	k := t.S("which").Weighted(ws...)
	env.Stats.SigAdd(uint64(k) + 0x77)
	plan, v := m.Parts[k].S.Run(t, env)
	return multiPlan{k, plan}, v
}
