package core

import (
	"fmt"
	"runtime/debug"
)

// Sched is the cooperative scheduler: tasks are goroutines of which exactly
// one runs at any moment; a task hands the baton back only at a seam (Yield).
// Which runnable task proceeds at each step is a draw.
type Sched struct {
	tasks   []*Task
	cur     *Task
	Steps   int
	Trace   []int  // task index chosen at each step (the schedule)
	SigHash uint64 // hash of the context-switch sequence
	Switch  int    // number of steps at which the running task changed
}

type Task struct {
	ID       int
	Name     string
	resume   chan struct{}
	yielded  chan string
	done     bool
	started  bool
	fn       func(t *Task)
	Panic    any
	PanicStk string
	sched    *Sched
	LastSite string
}

func NewSched() *Sched { return &Sched{} }

// Go registers a task; it starts running when first scheduled.
func (s *Sched) Go(name string, fn func(t *Task)) *Task {
	t := &Task{ID: len(s.tasks), Name: name, resume: make(chan struct{}), yielded: make(chan string), fn: fn, sched: s}
	s.tasks = append(s.tasks, t)
	return t
}

// Tasks lists all tasks.
func (s *Sched) Tasks() []*Task { return s.tasks }

// Cur returns the running task (nil outside Run).
func (s *Sched) Cur() *Task { return s.cur }

// Yield is called from inside a task at a seam.
func (s *Sched) Yield(site string) {
	t := s.cur
	if t == nil {
		return
	}
	t.yielded <- site
	<-t.resume
}

func (t *Task) run() {
	defer func() {
		if r := recover(); r != nil {
			t.Panic = r
			t.PanicStk = string(debug.Stack())
		}
		t.done = true
		t.yielded <- "done"
	}()
	<-t.resume
	t.fn(t)
}

// Run drives all tasks to completion. choose picks among n runnable tasks;
// between is called before every step (pool faults etc.). It returns an error
// if the step budget is exhausted (livelock).
func (s *Sched) Run(choose func(n int) int, between func(step int), budget int) error {
	for _, t := range s.tasks {
		if !t.started {
			t.started = true
			go t.run()
		}
	}
	last := -1
	for {
		var runnable []*Task
		for _, t := range s.tasks {
			if !t.done {
				runnable = append(runnable, t)
			}
		}
		if len(runnable) == 0 {
			return nil
		}
		if s.Steps >= budget {
			// leave the parked goroutines behind; the process is recycled anyway
			return fmt.Errorf("step budget %d exhausted with %d tasks still running (last sites: %s)", budget, len(runnable), runnable[0].LastSite)
		}
		if between != nil {
			between(s.Steps)
		}
		k := 0
		if len(runnable) > 1 {
			k = choose(len(runnable))
		}
		t := runnable[k]
		s.Steps++
		if len(s.Trace) < 4096 {
			s.Trace = append(s.Trace, t.ID)
		}
		if t.ID != last {
			s.Switch++
			s.SigHash = mix64(s.SigHash ^ uint64(t.ID+1)<<8 ^ uint64(s.Steps&0xff))
			last = t.ID
		}
		s.cur = t
		t.resume <- struct{}{}
		t.LastSite = <-t.yielded
		s.cur = nil
	}
}
