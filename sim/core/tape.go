// Package core holds the simulator kernel: the tape (single source of all
// choices), simulated readers/writers, the cooperative scheduler, the runner,
// the shrinker and the evidence/replay formats.
package core

import (
	"sort"
)

// splitmix64 step.
func mix64(x uint64) uint64 {
	x += 0x9e3779b97f4a7c15
	x = (x ^ (x >> 30)) * 0xbf58476d1ce4e5b9
	x = (x ^ (x >> 27)) * 0x94d049bb133111eb
	return x ^ (x >> 31)
}

// Mix combines integers into one seed, deterministically.
func Mix(vs ...uint64) uint64 {
	h := uint64(0x243f6a8885a308d3)
	for _, v := range vs {
		h = mix64(h ^ v)
	}
	return h
}

func hashLabel(s string) uint64 {
	h := uint64(14695981039346656037)
	for i := 0; i < len(s); i++ {
		h ^= uint64(s[i])
		h *= 1099511628211
	}
	return h
}

// Tape is the one integer that decides everything, unrolled: a set of
// labelled streams of bounded draws. In generate mode missing draws come from
// SplitMix64 seeded by (seed,label); in replay mode missing draws are 0 (the
// simplest choice by construction of all generators).
type Tape struct {
	Seed    uint64
	Replay  bool
	streams map[string]*Stream
	order   []string
}

// Stream is one labelled sequence of draws.
type Stream struct {
	rec   []uint32
	pos   int
	state uint64
	tape  *Tape
}

func NewTape(seed uint64) *Tape {
	return &Tape{Seed: seed, streams: map[string]*Stream{}}
}

// NewReplayTape builds a tape that replays recorded draws and answers 0 after
// the end of each stream.
func NewReplayTape(seed uint64, rec map[string][]uint32) *Tape {
	t := &Tape{Seed: seed, Replay: true, streams: map[string]*Stream{}}
	labels := make([]string, 0, len(rec))
	for l := range rec {
		labels = append(labels, l)
	}
	sort.Strings(labels)
	for _, l := range labels {
		s := t.S(l)
		s.rec = append([]uint32(nil), rec[l]...)
	}
	return t
}

// S returns the stream with the given label, creating it on first use.
func (t *Tape) S(label string) *Stream {
	if s, ok := t.streams[label]; ok {
		return s
	}
	s := &Stream{state: Mix(t.Seed, hashLabel(label)), tape: t}
	t.streams[label] = s
	t.order = append(t.order, label)
	return s
}

// Dump returns the draws made so far (only the consumed prefix of each stream).
func (t *Tape) Dump() map[string][]uint32 {
	out := map[string][]uint32{}
	for _, l := range t.order {
		s := t.streams[l]
		n := s.pos
		if n > len(s.rec) {
			n = len(s.rec)
		}
		if n > 0 {
			out[l] = append([]uint32(nil), s.rec[:n]...)
		}
	}
	return out
}

// Draws reports the total number of draws consumed.
func (t *Tape) Draws() int {
	n := 0
	for _, s := range t.streams {
		n += s.pos
	}
	return n
}

// Draw returns a value in [0,n). n<=1 returns 0 without consuming a draw.
func (s *Stream) Draw(n int) int {
	if n <= 1 {
		return 0
	}
	var v uint32
	if s.pos < len(s.rec) {
		v = s.rec[s.pos]
		if int64(v) >= int64(n) {
			v = uint32(n - 1)
			s.rec[s.pos] = v
		}
	} else {
		if !s.tape.Replay {
			s.state += 0x9e3779b97f4a7c15
			z := s.state
			z = (z ^ (z >> 30)) * 0xbf58476d1ce4e5b9
			z = (z ^ (z >> 27)) * 0x94d049bb133111eb
			z ^= z >> 31
			v = uint32(z % uint64(n))
		}
		s.rec = append(s.rec, v)
	}
	s.pos++
	return int(v)
}

// Bool draws a boolean; false is the simple choice.
func (s *Stream) Bool() bool { return s.Draw(2) == 1 }

// Chance reports true with probability num/den; false is the simple choice.
func (s *Stream) Chance(num, den int) bool {
	if num <= 0 {
		return false
	}
	return s.Draw(den) >= den-num
}

// Range draws in [lo,hi] inclusive; lo is the simple choice.
func (s *Stream) Range(lo, hi int) int {
	if hi <= lo {
		return lo
	}
	return lo + s.Draw(hi-lo+1)
}

// Weighted draws an index with the given weights; index 0 is the simple choice.
func (s *Stream) Weighted(w ...int) int {
	tot := 0
	for _, x := range w {
		tot += x
	}
	v := s.Draw(tot)
	for i, x := range w {
		if v < x {
			return i
		}
		v -= x
	}
	return len(w) - 1
}

// ---------------------------------------------------------------------------
// Shrinking

// ShrinkTape minimises rec while test keeps returning true. test receives a
// candidate recording and must run the scenario from a clean state. budget is
// the maximum number of test executions.
func ShrinkTape(rec map[string][]uint32, test func(map[string][]uint32) bool, budget int) (map[string][]uint32, int) {
	cur := cloneRec(rec)
	runs := 0
	try := func(c map[string][]uint32) bool {
		if runs >= budget {
			return false
		}
		runs++
		if test(c) {
			cur = c
			return true
		}
		return false
	}
	labels := func() []string {
		ls := make([]string, 0, len(cur))
		for l := range cur {
			ls = append(ls, l)
		}
		sort.Strings(ls)
		return ls
	}
	improved := true
	for pass := 0; improved && pass < 6 && runs < budget; pass++ {
		improved = false
		// 1. drop whole streams
		for _, l := range labels() {
			if len(cur[l]) == 0 {
				continue
			}
			c := cloneRec(cur)
			delete(c, l)
			if try(c) {
				improved = true
			}
		}
		// 2. truncate tails
		for _, l := range labels() {
			for len(cur[l]) > 0 && runs < budget {
				n := len(cur[l])
				c := cloneRec(cur)
				c[l] = c[l][:n/2]
				if !try(c) {
					break
				}
				improved = true
			}
		}
		// 3. delete windows
		for _, l := range labels() {
			for _, w := range []int{16, 8, 4, 2, 1} {
				for i := 0; i+w <= len(cur[l]) && runs < budget; {
					c := cloneRec(cur)
					c[l] = append(c[l][:i:i], cur[l][i+w:]...)
					if try(c) {
						improved = true
					} else {
						i += w
					}
				}
			}
		}
		// 4. zero / halve / decrement values
		for _, l := range labels() {
			for i := 0; i < len(cur[l]) && runs < budget; i++ {
				v := cur[l][i]
				if v == 0 {
					continue
				}
				for _, nv := range []uint32{0, v / 2, v - 1} {
					if nv >= cur[l][i] {
						continue
					}
					c := cloneRec(cur)
					c[l][i] = nv
					if try(c) {
						improved = true
						if nv == 0 {
							break
						}
					}
				}
			}
		}
	}
	return cur, runs
}

func cloneRec(r map[string][]uint32) map[string][]uint32 {
	c := make(map[string][]uint32, len(r))
	for k, v := range r {
		c[k] = append([]uint32(nil), v...)
	}
	return c
}
