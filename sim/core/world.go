package core

import (
	"runtime"
	"sort"
	"sync"

	json "github.com/go-json-experiment/json"
	"github.com/go-json-experiment/json/jsontext"
)

// Pools returns every sync.Pool of the library, by name (hooks, build tag verif).
func Pools() map[string]*sync.Pool {
	m := map[string]*sync.Pool{}
	for k, v := range jsontext.VerifPools() {
		m[k] = v
	}
	for k, v := range json.VerifPools() {
		m[k] = v
	}
	return m
}

func PoolNames() []string {
	var ns []string
	for k := range Pools() {
		ns = append(ns, k)
	}
	sort.Strings(ns)
	return ns
}

// DrainPool removes and returns everything currently cached in p.
// With GOMAXPROCS(1) and no concurrent GC this is exact.
func DrainPool(p *sync.Pool) []any {
	nw := p.New
	p.New = nil
	var out []any
	seen := map[any]bool{}
	for {
		x := p.Get()
		if x == nil {
			break
		}
		if seen[x] {
			// the same object twice: conservation is broken; report by returning
			// it twice so the caller can see it
			out = append(out, x)
			break
		}
		seen[x] = true
		out = append(out, x)
		if len(out) > 1<<16 {
			break
		}
	}
	p.New = nw
	return out
}

// ResetWorld empties all pools and caches so that a run starts pristine.
func ResetWorld(resetCaches bool) {
	ps := Pools()
	for _, n := range poolNames {
		DrainPool(ps[n])
	}
	if resetCaches {
		json.VerifResetCaches()
	}
}

var poolNames = PoolNames()

// EvictPools is the injected "GC ran" fault: two collections empty both the
// primary and the victim caches of every sync.Pool.
func EvictPools() {
	runtime.GC()
	runtime.GC()
}
