package core

import (
	"fmt"
	"sort"
)

// Violation is what a monitor reports.
type Violation struct {
	Property string `json:"property"`
	Class    string `json:"class"` // stable identifier, e.g. C05/trace-divergence/pointer
	Site     string `json:"site,omitempty"`
	Detail   string `json:"detail"`
}

func (v Violation) Key() string { return v.Property + "|" + v.Class + "|" + v.Site }

func Violationf(prop, class, site, format string, a ...any) Violation {
	d := fmt.Sprintf(format, a...)
	if len(d) > 600 {
		d = d[:600] + "..."
	}
	return Violation{Property: prop, Class: class, Site: site, Detail: d}
}

// Stats collects measured reach: faults fired, probes hit, signatures.
type Stats struct {
	Faults map[string]int64
	Probes map[string]int64
	Steps  int64
	// Sig is the schedule/fault signature of the current run (hash), and
	// Nontrivial whether something landed inside an operation.
	Sig        uint64
	Nontrivial bool
}

func NewStats() *Stats {
	return &Stats{Faults: map[string]int64{}, Probes: map[string]int64{}}
}

func (s *Stats) Fault(kind string, n int) {
	if n > 0 {
		s.Faults[kind] += int64(n)
	}
}

func (s *Stats) Probe(name string) { s.Probes[name]++ }

func (s *Stats) ProbeN(name string, n int) {
	if n > 0 {
		s.Probes[name] += int64(n)
	}
}

// SigAdd folds values into the run signature.
func (s *Stats) SigAdd(vs ...uint64) {
	for _, v := range vs {
		s.Sig = mix64(s.Sig ^ v)
	}
}

func SortedKeys(m map[string]int64) []string {
	ks := make([]string, 0, len(m))
	for k := range m {
		ks = append(ks, k)
	}
	sort.Strings(ks)
	return ks
}
