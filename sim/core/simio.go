package core

import (
	"errors"
	"fmt"
	"io"
	"sort"
)

// ErrInjected is the transient I/O error the simulator injects.
var ErrInjected = errors.New("verifsim: injected I/O fault")

// ErrDiskFull is the persistent write error ("disk full").
var ErrDiskFull = fmt.Errorf("verifsim: disk full: %w", ErrInjected)

// Read event kinds.
const (
	RData    = iota // n bytes, nil
	REmpty          // (0, nil)
	RErr            // (0, ErrInjected)
	RDataErr        // (n>0, ErrInjected)
)

// ReadEvt is a call-indexed perturbation of one Read call.
type ReadEvt struct {
	Call int `json:"call"`
	Kind int `json:"kind"`
}

// ReadPlan is the script a SimReader follows. All fields are plain data so a
// plan can be rendered into a replay file.
type ReadPlan struct {
	MaxChunk    int       `json:"max_chunk,omitempty"` // 0 = as much as asked
	Cuts        []int     `json:"cuts,omitempty"`      // sorted offsets no Read crosses
	Sizes       []int     `json:"sizes,omitempty"`     // call-indexed sizes (0 = as asked)
	Events      []ReadEvt `json:"events,omitempty"`    // call-indexed empties/faults
	FaultAt     []int     `json:"fault_at,omitempty"`  // offset-keyed transient faults (fire once when pos>=off at a Read)
	EOFWithData bool      `json:"eof_with_data,omitempty"`
}

// SimReader is the only transport the library sees on the read side.
type SimReader struct {
	Data []byte
	Pos  int
	Plan ReadPlan

	Calls         int
	emptiesInRow  int
	faultIdx      int
	SuppressFault bool // executor sets this during calls that make no retry promise
	evIdx         int

	// statistics (fired, not configured)
	NShort, NEmpty, NErr, NDataErr, NDataEOF, NBareEOF, NOneByte int
	MaxAsk                                                       int
	GrowSeen                                                     int
	FaultsDelivered                                              int // (0,err) results
	Yield                                                        func(site string)
}

func NewSimReader(data []byte, plan ReadPlan) *SimReader {
	sort.Ints(plan.Cuts)
	sort.Ints(plan.FaultAt)
	sort.Slice(plan.Events, func(i, j int) bool { return plan.Events[i].Call < plan.Events[j].Call })
	return &SimReader{Data: data, Plan: plan}
}

func (r *SimReader) Read(p []byte) (int, error) {
	if r.Yield != nil {
		r.Yield("read")
	}
	call := r.Calls
	r.Calls++
	if len(p) > r.MaxAsk {
		if r.MaxAsk > 0 {
			r.GrowSeen++
		}
		r.MaxAsk = len(p)
	}
	if len(p) == 0 {
		return 0, nil
	}
	// call-indexed event for this call?
	kind := RData
	for r.evIdx < len(r.Plan.Events) && r.Plan.Events[r.evIdx].Call < call {
		r.evIdx++
	}
	if r.evIdx < len(r.Plan.Events) && r.Plan.Events[r.evIdx].Call == call {
		kind = r.Plan.Events[r.evIdx].Kind
		r.evIdx++
	}
	// offset-keyed fault
	if r.faultIdx < len(r.Plan.FaultAt) && r.Pos >= r.Plan.FaultAt[r.faultIdx] && !r.SuppressFault {
		r.faultIdx++
		kind = RErr
	}
	if (kind == RErr || kind == RDataErr) && r.SuppressFault {
		kind = RData
	}
	switch kind {
	case REmpty:
		if r.emptiesInRow < 3 {
			r.emptiesInRow++
			r.NEmpty++
			return 0, nil
		}
	case RErr:
		r.emptiesInRow = 0
		r.NErr++
		r.FaultsDelivered++
		return 0, ErrInjected
	}
	r.emptiesInRow = 0
	rem := len(r.Data) - r.Pos
	if rem == 0 {
		r.NBareEOF++
		return 0, io.EOF
	}
	n := len(p)
	if n > rem {
		n = rem
	}
	full := n
	if call < len(r.Plan.Sizes) && r.Plan.Sizes[call] > 0 && r.Plan.Sizes[call] < n {
		n = r.Plan.Sizes[call]
	}
	if r.Plan.MaxChunk > 0 && n > r.Plan.MaxChunk {
		n = r.Plan.MaxChunk
	}
	// never cross a cut
	i := sort.SearchInts(r.Plan.Cuts, r.Pos+1)
	if i < len(r.Plan.Cuts) && r.Plan.Cuts[i] < r.Pos+n {
		n = r.Plan.Cuts[i] - r.Pos
	}
	if n < 1 {
		n = 1
	}
	copy(p, r.Data[r.Pos:r.Pos+n])
	r.Pos += n
	if n < full {
		r.NShort++
	}
	if n == 1 {
		r.NOneByte++
	}
	if kind == RDataErr {
		r.NDataErr++
		return n, ErrInjected
	}
	if r.Pos == len(r.Data) && r.Plan.EOFWithData {
		r.NDataEOF++
		return n, io.EOF
	}
	return n, nil
}

// Tap records how many bytes crossed a reader boundary.
type Tap struct {
	R io.Reader
	N int
	// FaultsDelivered counts (0, non-EOF error) results that reached the
	// library (a wrapper such as bufio may defer an error-with-data to its
	// next call, so this is counted here and not at the SimReader).
	FaultsDelivered int
}

func (t *Tap) Read(p []byte) (int, error) {
	n, err := t.R.Read(p)
	t.N += n
	if n == 0 && err != nil && err != io.EOF {
		t.FaultsDelivered++
	}
	return n, err
}

// ---------------------------------------------------------------------------

// Write event kinds.
const (
	WOK       = iota
	WShort    // (n<len, ErrInjected)
	WErrAfter // (len, ErrInjected)
	WReject   // (0, ErrInjected)
)

type WriteEvt struct {
	Call int `json:"call"`
	Kind int `json:"kind"`
	Frac int `json:"frac"` // short write: accepted = len*Frac/256 (at least 0, < len)
}

type WriteFault struct {
	Off  int `json:"off"`  // when a Write would reach/cross this stream offset
	Kind int `json:"kind"` // WShort: accept up to Off then fail; WReject; WErrAfter
}

type WritePlan struct {
	Events     []WriteEvt   `json:"events,omitempty"`
	FaultAt    []WriteFault `json:"fault_at,omitempty"`
	DiskFullAt int          `json:"disk_full_at,omitempty"` // <=0: never; from this byte on all writes fail
}

// SimWriter is the only "disk" the library sees on the write side.
type SimWriter struct {
	Plan     WritePlan
	Got      []byte
	Calls    int
	evIdx    int
	faultIdx int
	Off      bool // faults off (end-of-run drain)

	NShort, NErrAfter, NReject, NDiskFull int
	MaxWrite                              int
	Yield                                 func(site string)
}

func NewSimWriter(plan WritePlan) *SimWriter {
	sort.Slice(plan.Events, func(i, j int) bool { return plan.Events[i].Call < plan.Events[j].Call })
	sort.Slice(plan.FaultAt, func(i, j int) bool { return plan.FaultAt[i].Off < plan.FaultAt[j].Off })
	return &SimWriter{Plan: plan}
}

func (w *SimWriter) Faults() int { return w.NShort + w.NErrAfter + w.NReject + w.NDiskFull }

func (w *SimWriter) Write(p []byte) (int, error) {
	if w.Yield != nil {
		w.Yield("write")
	}
	call := w.Calls
	w.Calls++
	if len(p) > w.MaxWrite {
		w.MaxWrite = len(p)
	}
	if w.Off {
		w.Got = append(w.Got, p...)
		return len(p), nil
	}
	if w.Plan.DiskFullAt > 0 && len(w.Got)+len(p) > w.Plan.DiskFullAt {
		n := w.Plan.DiskFullAt - len(w.Got)
		if n < 0 {
			n = 0
		}
		w.Got = append(w.Got, p[:n]...)
		w.NDiskFull++
		return n, ErrDiskFull
	}
	kind, frac := WOK, 0
	for w.evIdx < len(w.Plan.Events) && w.Plan.Events[w.evIdx].Call < call {
		w.evIdx++
	}
	if w.evIdx < len(w.Plan.Events) && w.Plan.Events[w.evIdx].Call == call {
		kind, frac = w.Plan.Events[w.evIdx].Kind, w.Plan.Events[w.evIdx].Frac
		w.evIdx++
	}
	if w.faultIdx < len(w.Plan.FaultAt) && (len(w.Got)+len(p) > w.Plan.FaultAt[w.faultIdx].Off || (w.Plan.FaultAt[w.faultIdx].Kind != WShort && len(w.Got)+len(p) >= w.Plan.FaultAt[w.faultIdx].Off)) {
		// (a short write fires only when the write strictly crosses the offset,
		// so that exactly Off bytes have been accepted at the moment of failure
		// however the library happens to batch its writes)
		f := w.Plan.FaultAt[w.faultIdx]
		w.faultIdx++
		switch f.Kind {
		case WShort:
			n := f.Off - len(w.Got)
			if n < 0 {
				n = 0
			}
			if n >= len(p) {
				n = len(p) - 1
			}
			if n < 0 {
				n = 0
			}
			w.Got = append(w.Got, p[:n]...)
			w.NShort++
			return n, ErrInjected
		case WReject:
			w.NReject++
			return 0, ErrInjected
		case WErrAfter:
			w.Got = append(w.Got, p...)
			w.NErrAfter++
			return len(p), ErrInjected
		}
	}
	switch kind {
	case WShort:
		n := len(p) * frac / 256
		if n >= len(p) {
			n = len(p) - 1
		}
		if n < 0 {
			n = 0
		}
		w.Got = append(w.Got, p[:n]...)
		w.NShort++
		return n, ErrInjected
	case WErrAfter:
		w.Got = append(w.Got, p...)
		w.NErrAfter++
		return len(p), ErrInjected
	case WReject:
		w.NReject++
		return 0, ErrInjected
	}
	w.Got = append(w.Got, p...)
	return len(p), nil
}
