// Package gen produces inputs (JSON texts, mutations, option sets, programs)
// from tape draws. Draw 0 is always the simplest choice.
package gen

import (
	"strconv"

	"verifsim/core"
	"verifsim/refjson"
)

// Thresholds around which the coders change behaviour (buffer sizes and their
// 25%/75% marks).
var Thresholds = []int{64, 48, 16, 128, 96, 32, 256, 192, 512, 384, 1024, 768, 2048, 1536, 4096, 3072, 8192, 6144}

// Size draws a length: mostly small, sometimes hugging a threshold.
func Size(s *core.Stream, max int) int {
	var n int
	switch s.Weighted(50, 20, 20, 10) {
	case 0:
		n = s.Range(0, 12)
	case 1:
		n = s.Range(13, 70)
	case 2:
		t := Thresholds[s.Draw(len(Thresholds))]
		n = t - 4 + s.Draw(9)
	case 3:
		n = s.Range(71, 700)
	}
	if n > max {
		n = max
	}
	if n < 0 {
		n = 0
	}
	return n
}

type JSONCfg struct {
	MaxBytes     int
	MaxDepth     int
	InvalidUTF8  bool // may emit ill-formed bytes inside strings
	DupNames     bool // may emit duplicate names
	CollideNames bool // draw names from a small colliding family
	NoWS         bool
}

type jsonGen struct {
	s   *core.Stream
	cfg JSONCfg
	b   []byte
}

// Text generates one JSON value.
func Text(s *core.Stream, cfg JSONCfg) []byte {
	g := &jsonGen{s: s, cfg: cfg}
	if cfg.MaxBytes == 0 {
		g.cfg.MaxBytes = 2048
	}
	if cfg.MaxDepth == 0 {
		g.cfg.MaxDepth = 6
	}
	g.ws()
	g.value(0)
	g.ws()
	return g.b
}

func (g *jsonGen) room() int { return g.cfg.MaxBytes - len(g.b) }

func (g *jsonGen) ws() {
	if g.cfg.NoWS {
		return
	}
	if !g.s.Chance(1, 4) {
		return
	}
	n := 1
	if g.s.Chance(1, 4) {
		n = Size(g.s, g.room()/2+1)
	}
	for i := 0; i < n; i++ {
		g.b = append(g.b, " \n\t\r"[g.s.Draw(4)])
	}
}

func (g *jsonGen) value(depth int) {
	if g.room() < 8 || depth >= g.cfg.MaxDepth {
		g.scalar()
		return
	}
	switch g.s.Weighted(4, 3, 3) {
	case 0:
		g.scalar()
	case 1:
		g.array(depth)
	case 2:
		g.object(depth)
	}
}

func (g *jsonGen) scalar() {
	switch g.s.Weighted(3, 4, 1, 1, 1) {
	case 0:
		g.number()
	case 1:
		g.str(false)
	case 2:
		g.b = append(g.b, "null"...)
	case 3:
		g.b = append(g.b, "true"...)
	case 4:
		g.b = append(g.b, "false"...)
	}
}

func (g *jsonGen) digits(n int) {
	for i := 0; i < n; i++ {
		g.b = append(g.b, byte('0'+g.s.Draw(10)))
	}
}

func (g *jsonGen) number() {
	s := g.s
	if s.Chance(1, 4) {
		g.b = append(g.b, '-')
	}
	if s.Chance(1, 5) {
		g.b = append(g.b, '0')
	} else {
		g.b = append(g.b, byte('1'+s.Draw(9)))
		n := 0
		if s.Chance(1, 2) {
			n = s.Range(0, 5)
			if s.Chance(1, 8) {
				n = Size(s, g.room()/2+1)
			}
		}
		g.digits(n)
	}
	if s.Chance(1, 3) {
		g.b = append(g.b, '.')
		n := s.Range(1, 4)
		if s.Chance(1, 10) {
			n = 1 + Size(s, g.room()/2+1)
		}
		g.digits(n)
	}
	if s.Chance(1, 4) {
		g.b = append(g.b, "eE"[s.Draw(2)])
		switch s.Draw(3) {
		case 1:
			g.b = append(g.b, '+')
		case 2:
			g.b = append(g.b, '-')
		}
		g.digits(s.Range(1, 3))
	}
}

var collideMid = []string{"", "x", "y", "xy", "yx"}

// names (and strings) that are distinct byte strings but equal once ill-formed
// UTF-8 has been replaced by U+FFFD
var mangleTwins = []string{"k\xef\xbf\xbd", "k\xef", "k\xef\xbf", "k\xff", "k\\ufffd", "k\xc0", "\xef\xbf\xbd", "\xef", "\xe2\x80"}

func (g *jsonGen) str(name bool) {
	s := g.s
	g.b = append(g.b, '"')
	if g.cfg.CollideNames && g.cfg.InvalidUTF8 && s.Chance(1, 3) {
		g.b = append(g.b, mangleTwins[s.Draw(len(mangleTwins))]...)
		g.b = append(g.b, '"')
		return
	}
	if g.cfg.CollideNames && s.Chance(1, 2) {
		// same length class, same first and last 8 bytes, different middle
		g.b = append(g.b, "prefix__"...)
		g.b = append(g.b, collideMid[s.Draw(len(collideMid))]...)
		g.b = append(g.b, "__suffix"...)
		g.b = append(g.b, '"')
		return
	}
	n := 0
	switch s.Weighted(6, 3, 1) {
	case 0:
		n = s.Range(0, 6)
	case 1:
		n = Size(s, g.room()/2+1)
	case 2:
		n = s.Range(0, 300)
		if n > g.room()/2 {
			n = g.room() / 2
		}
	}
	style := s.Weighted(5, 3, 2) // plain ascii / mixed / heavy escapes
	for i := 0; i < n; i++ {
		if style == 0 && !s.Chance(1, 16) {
			g.b = append(g.b, byte('a'+s.Draw(26)))
			continue
		}
		g.char(style)
	}
	g.b = append(g.b, '"')
}

func (g *jsonGen) char(style int) {
	s := g.s
	w := []int{6, 2, 2, 2, 2, 2, 1, 1}
	if style == 2 {
		w = []int{1, 3, 3, 2, 2, 2, 2, 1}
	}
	if !g.cfg.InvalidUTF8 {
		w[7] = 0
	}
	switch s.Weighted(w...) {
	case 0:
		g.b = append(g.b, byte('a'+s.Draw(26)))
	case 1: // simple escape
		g.b = append(g.b, '\\', `"\/bfnrt`[s.Draw(8)])
	case 2: // \u escape of a BMP non-surrogate
		v := []int{0x41, 0x00, 0x1f, 0x22, 0x5c, 0x2f, 0x7f, 0xe9, 0x2028, 0xfffd, 0xffff, 0xd7ff, 0xe000, 0x3c, 0x26}[s.Draw(15)]
		g.uesc(v)
	case 3: // surrogate pair escape
		hi := 0xd800 + s.Draw(0x400)
		lo := 0xdc00 + s.Draw(0x400)
		g.uesc(hi)
		g.uesc(lo)
	case 4: // 2-byte rune
		g.b = append(g.b, string(rune(0x80+s.Draw(0x780)))...)
	case 5: // 3-byte rune (avoid surrogates)
		r := rune(0x800 + s.Draw(0xf800))
		if r >= 0xd800 && r <= 0xdfff {
			r = 0x2028
		}
		g.b = append(g.b, string(r)...)
	case 6: // 4-byte rune
		g.b = append(g.b, string(rune(0x10000+s.Draw(0x100000)))...)
	case 7: // ill-formed
		switch s.Draw(6) {
		case 0:
			g.b = append(g.b, 0xff)
		case 1:
			g.b = append(g.b, 0xc0, 0x80)
		case 2:
			g.b = append(g.b, 0xe2, 0x82) // truncated 3-byte
		case 3:
			g.b = append(g.b, 0xed, 0xa0, 0x80) // encoded surrogate
		case 4:
			g.b = append(g.b, 0x80)
		case 5:
			g.uesc(0xd800 + s.Draw(0x800)) // lone surrogate escape
		}
	}
}

func (g *jsonGen) uesc(v int) {
	const hexL, hexU = "0123456789abcdef", "0123456789ABCDEF"
	h := hexL
	if g.s.Bool() {
		h = hexU
	}
	g.b = append(g.b, '\\', 'u', h[v>>12&15], h[v>>8&15], h[v>>4&15], h[v&15])
}

func (g *jsonGen) array(depth int) {
	s := g.s
	g.b = append(g.b, '[')
	g.ws()
	n := s.Weighted(2, 3, 3, 2, 1)
	if n == 4 {
		n = s.Range(4, 40)
	}
	for i := 0; i < n && g.room() > 8; i++ {
		if i > 0 {
			g.b = append(g.b, ',')
			g.ws()
		}
		g.value(depth + 1)
		g.ws()
	}
	g.b = append(g.b, ']')
}

func (g *jsonGen) object(depth int) {
	s := g.s
	g.b = append(g.b, '{')
	g.ws()
	n := s.Weighted(2, 3, 3, 2, 1, 1)
	switch n {
	case 4:
		n = s.Range(4, 30)
	case 5:
		n = s.Range(60, 70) // crosses the linear-search/map switch of the name set
	}
	var used map[string]bool
	if !g.cfg.DupNames {
		used = map[string]bool{}
	}
	for i := 0; i < n && g.room() > 12; i++ {
		if i > 0 {
			g.b = append(g.b, ',')
			g.ws()
		}
		// name
		start := len(g.b)
		if s.Chance(1, 12) {
			// names that need RFC 6901 escaping in pointers
			g.b = append(g.b, []string{`"a/b"`, `"m~n"`, `"~0"`, `"~1/"`, `"/"`, `"~"`}[s.Draw(6)]...)
			g.b = strconv.AppendInt(g.b[:len(g.b)-1], int64(i), 10)
			g.b = append(g.b, '"')
		} else if s.Chance(3, 4) && !g.cfg.CollideNames {
			g.b = append(g.b, '"')
			g.b = append(g.b, 'k')
			g.b = strconv.AppendInt(g.b, int64(i), 10)
			if s.Chance(1, 8) {
				for k, m := 0, Size(s, g.room()/2+1); k < m; k++ {
					g.b = append(g.b, byte('a'+k%26))
				}
			}
			g.b = append(g.b, '"')
			if used != nil {
				if u, _ := refjson.Unquote(g.b[start:]); true {
					used["\x00"+u] = true
				}
			}
		} else {
			for try := 0; ; try++ {
				g.b = g.b[:start]
				g.str(true)
				if used == nil {
					break
				}
				key := string(g.b[start:])
				if u, mangled := refjson.Unquote(g.b[start:]); !mangled && !g.cfg.InvalidUTF8 {
					key = "\x00" + u // compare names after unescaping
				} else if !nameIsPlain(g.b[start:]) {
					key = ""
				}
				if key != "" && !used[key] || try > 4 {
					if try > 4 {
						g.b = g.b[:start]
						g.b = append(g.b, '"', 'u')
						g.b = strconv.AppendInt(g.b, int64(i), 10)
						g.b = append(g.b, '"')
					}
					if try > 4 {
						key = "\x00u" + strconv.Itoa(i)
					}
					used[key] = true
					break
				}
			}
		}
		g.ws()
		g.b = append(g.b, ':')
		g.ws()
		g.value(depth + 1)
		g.ws()
	}
	g.b = append(g.b, '}')
}

// nameIsPlain: names used for uniqueness bookkeeping must not contain escapes
// or non-ASCII (so byte-inequality implies inequality after unescaping).
func nameIsPlain(q []byte) bool {
	for _, c := range q[1 : len(q)-1] {
		if c == '\\' || c >= 0x80 {
			return false
		}
	}
	return true
}

// Critical bytes for mutation.
var critical = []byte(`{}[]:,"\ -+.eE0123456789ntfu` + "\x00\x1f\x7f\x80\xff\n")

// Mutate applies one of the invalidating edits.
func Mutate(s *core.Stream, b []byte) []byte {
	if len(b) == 0 {
		return []byte{critical[s.Draw(len(critical))]}
	}
	out := append([]byte(nil), b...)
	switch s.Weighted(3, 3, 2, 2, 1, 1) {
	case 5: // insert a well-formed multi-byte character (outside strings it is an invalid character of 2-4 bytes)
		i := s.Draw(len(out) + 1)
		out = append(out[:i:i], append([]byte([]string{"é", "€", "𐀀", "\u2028"}[s.Draw(4)]), out[i:]...)...)
	case 0: // truncate
		out = out[:s.Draw(len(out))]
	case 1: // replace
		out[s.Draw(len(out))] = critical[s.Draw(len(critical))]
	case 2: // insert
		i := s.Draw(len(out) + 1)
		out = append(out[:i:i], append([]byte{critical[s.Draw(len(critical))]}, out[i:]...)...)
	case 3: // delete
		i := s.Draw(len(out))
		out = append(out[:i:i], out[i+1:]...)
	case 4: // append garbage
		out = append(out, critical[s.Draw(len(critical))])
	}
	return out
}

// Tower builds a text nested 9998..10002 deep in a drawn mix of arrays and
// objects with a drawn leaf, optionally truncated or followed by more values.
func Tower(s *core.Stream) []byte {
	depth := 9998 + s.Draw(5)
	mix := s.Draw(4) // 0 arrays, 1 objects, 2 alternating, 3 random
	leaf := []string{"", "1", "\"\"", "{}", "[]", "null", "{\"a\":[]}", "[{}]"}[s.Draw(8)]
	var b []byte
	kinds := make([]bool, depth) // true = object
	for i := 0; i < depth; i++ {
		obj := false
		switch mix {
		case 1:
			obj = true
		case 2:
			obj = i%2 == 1
		case 3:
			obj = s.Draw(2) == 1
		}
		kinds[i] = obj
		if obj {
			b = append(b, `{"a":`...)
		} else {
			b = append(b, '[')
		}
	}
	if leaf == "" {
		// innermost container is empty: drop the pending name if it is an object
		if kinds[depth-1] {
			b = b[:len(b)-len(`"a":`)]
		}
	} else {
		b = append(b, leaf...)
	}
	for i := depth - 1; i >= 0; i-- {
		if kinds[i] {
			b = append(b, '}')
		} else {
			b = append(b, ']')
		}
	}
	switch s.Draw(4) {
	case 1:
		b = append(b, " 1"...)
	case 2:
		b = b[:len(b)-1-s.Draw(3)]
	}
	return b
}
