package gen

import (
	"verifsim/core"
	"verifsim/refjson"
)

// DupNameMutation inserts, before a randomly chosen member, a member whose
// name is the same text under another escape spelling.
func DupNameMutation(s *core.Stream, in []byte) []byte {
	r := refjson.Scan(in, refjson.Opts{AllowInvalidUTF8: true, AllowDuplicateNames: true})
	var names []refjson.Tok
	for _, t := range r.Toks {
		if t.IsName {
			names = append(names, t)
		}
	}
	if len(names) == 0 {
		return in
	}
	t := names[s.Draw(len(names))]
	lit := in[t.Start:t.End]
	var re []byte
	re = append(re, '"')
	respelled := false
	for i := 1; i < len(lit)-1; i++ {
		c := lit[i]
		if !respelled && c >= 'a' && c <= 'z' && (i == 1 || lit[i-1] != '\\') && !inEscape(lit, i) {
			const hex = "0123456789abcdef"
			re = append(re, '\\', 'u', '0', '0', hex[c>>4], hex[c&15])
			respelled = s.Chance(2, 3)
			continue
		}
		re = append(re, c)
	}
	re = append(re, '"')
	var ins []byte
	ins = append(ins, re...)
	ins = append(ins, ':')
	ins = append(ins, "null"...)
	ins = append(ins, ',')
	out := make([]byte, 0, len(in)+len(ins))
	if s.Bool() {
		// before the chosen member
		out = append(out, in[:t.Start]...)
		out = append(out, ins...)
		out = append(out, in[t.Start:]...)
		return out
	}
	// after the chosen member's name: make the original the second occurrence's twin
	out = append(out, in[:t.Start]...)
	out = append(out, lit...)
	out = append(out, ":0,"...)
	out = append(out, re...)
	out = append(out, in[t.End:]...)
	return out
}

// inEscape reports whether position i of a string literal lies inside a \uXXXX or \x escape.
func inEscape(lit []byte, i int) bool {
	// scan from the start, tracking escapes
	for k := 1; k < len(lit)-1; {
		if lit[k] == '\\' {
			n := 2
			if k+1 < len(lit) && lit[k+1] == 'u' {
				n = 6
			}
			if i >= k && i < k+n {
				return true
			}
			k += n
			continue
		}
		k++
	}
	return false
}
