package gen

import (
	"fmt"
	"math"
	"reflect"
	"strconv"
	"time"

	"github.com/go-json-experiment/json/jsontext"

	"verifsim/core"
	"verifsim/peers"
)

// GoCfg steers the Go type/value generator.
type GoCfg struct {
	MaxDepth    int
	Peers       bool // place scripted user types
	Adversarial bool // NaN/Inf, ill-formed strings, arbitrary raw values, odd map keys
	OmitSweep   bool // omitempty members next to padding that sweeps flush thresholds
	BigStructs  bool // allow >64 fields
}

// PeerRef names one peer placed in a generated value.
type PeerRef struct {
	ID   int
	Type string // PTo PToPtr PJSON PJSONPtr PText PAppend PFunc
	Key  bool   // used as a map key
}

// GoGen generates reflect types and values from draws.
type GoGen struct {
	S        *core.Stream
	Cfg      GoCfg
	Peers    []PeerRef
	MultiMap bool // some map has >=2 entries (output order is then unspecified)
	HasNaN   bool
	nextID   int
	nstruct  int
}

var (
	tBool    = reflect.TypeFor[bool]()
	tInt     = reflect.TypeFor[int]()
	tInt8    = reflect.TypeFor[int8]()
	tInt64   = reflect.TypeFor[int64]()
	tUint8   = reflect.TypeFor[uint8]()
	tUint64  = reflect.TypeFor[uint64]()
	tFloat64 = reflect.TypeFor[float64]()
	tFloat32 = reflect.TypeFor[float32]()
	tString  = reflect.TypeFor[string]()
	tBytes   = reflect.TypeFor[[]byte]()
	tArr4    = reflect.TypeFor[[4]byte]()
	tAny     = reflect.TypeFor[any]()
	tRaw     = reflect.TypeFor[jsontext.Value]()
	tTime    = reflect.TypeFor[time.Time]()
	tDur     = reflect.TypeFor[time.Duration]()

	tPTo      = reflect.TypeFor[peers.PTo]()
	tPToPtr   = reflect.TypeFor[peers.PToPtr]()
	tPJSON    = reflect.TypeFor[peers.PJSON]()
	tPJSONPtr = reflect.TypeFor[peers.PJSONPtr]()
	tPText    = reflect.TypeFor[peers.PText]()
	tPAppend  = reflect.TypeFor[peers.PAppend]()
	tPFunc    = reflect.TypeFor[peers.PFunc]()
)

var scalarTypes = []reflect.Type{tString, tInt, tBool, tFloat64, tInt8, tInt64, tUint8, tUint64, tFloat32, tBytes, tArr4, tAny, tRaw, tTime, tDur}

// formatsFor lists format tag values that are meaningful for a field type
// (needs json.ExperimentalGlobalSupportFormatTag(true), which the workers set).
// FormatTags says whether generated struct types may carry `format:` tags;
// the worker sets it per run together with the library's process-wide switch.
var FormatTags = true

func formatsFor(t reflect.Type) []string {
	switch {
	case t == tTime:
		return []string{"RFC3339", "RFC3339Nano", "unix", "unixmilli", "unixmicro", "unixnano", "DateOnly", "'2006-01-02 15h'", "RFC1123", "bogus", "RFC822", "RFC850", "UnixDate", "ANSIC", "RubyDate", "Kitchen", "StampNano", "'2006 MST'"}
	case t == tDur:
		return []string{"sec", "milli", "micro", "nano", "units", "iso8601", "bogus"}
	case t == tBytes || t == tArr4:
		return []string{"base64", "base64url", "base32", "base32hex", "base16", "hex", "array", "bogus"}
	case t.Kind() == reflect.Float64 || t.Kind() == reflect.Float32:
		return []string{"nonfinite"}
	case t.Kind() == reflect.Slice || t.Kind() == reflect.Map:
		return []string{"emitnull", "emitempty"}
	}
	return nil
}

var peerTypes = []reflect.Type{tPTo, tPToPtr, tPJSON, tPJSONPtr, tPText, tPAppend, tPFunc}

// SetIDBase makes peer IDs start above base (keeps IDs of different calls apart).
func (g *GoGen) SetIDBase(base int) { g.nextID = base }

func (g *GoGen) Type(depth int) reflect.Type {
	s := g.S
	if depth >= g.Cfg.MaxDepth {
		return g.leaf()
	}
	switch s.Weighted(5, 2, 2, 1, 2, 3) {
	case 0:
		return g.leaf()
	case 1:
		return reflect.PointerTo(g.Type(depth + 1))
	case 2:
		return reflect.SliceOf(g.Type(depth + 1))
	case 3:
		return reflect.ArrayOf(1+s.Draw(3), g.Type(depth+1))
	case 4:
		return reflect.MapOf(g.keyType(), g.Type(depth+1))
	default:
		return g.structType(depth)
	}
}

func (g *GoGen) leaf() reflect.Type {
	s := g.S
	if g.Cfg.Peers && s.Chance(1, 4) {
		return peerTypes[s.Draw(len(peerTypes))]
	}
	return scalarTypes[s.Draw(len(scalarTypes))]
}

func (g *GoGen) keyType() reflect.Type {
	s := g.S
	w := []int{8, 2, 1, 0, 0, 0, 0}
	if g.Cfg.Adversarial {
		w = []int{6, 2, 1, 1, 1, 0, 0}
	}
	if g.Cfg.Peers {
		w[5], w[6] = 2, 1
	}
	switch s.Weighted(w...) {
	case 1:
		return tInt
	case 2:
		return tUint8
	case 3:
		return tFloat64
	case 4:
		return tBool
	case 5:
		return tPText
	case 6:
		return tPAppend
	}
	return tString
}

var tagNames = []string{"", "", "a", "b", "k0", "k1", "name", "'quoted name'", "'a\\\"b'", "ä", "-", "'-'", "a", "'\\u2028'", "'<&>'"}

// sweepStruct: pad strings whose lengths hug the flush thresholds alternate
// with omitempty members of every "emptyable" kind.
func (g *GoGen) sweepStruct(depth int) reflect.Type {
	s := g.S
	n := 2 + s.Draw(8)
	var fs []reflect.StructField
	emptyable := []reflect.Type{tPTo, tPToPtr, tPJSON, tPFunc, reflect.SliceOf(tInt), reflect.MapOf(tString, tInt), reflect.PointerTo(tPTo), tAny, tString, tRaw, reflect.PointerTo(tInt), tBytes}
	for i := 0; i < n; i++ {
		f := reflect.StructField{Name: "F" + strconv.Itoa(i)}
		switch {
		case s.Chance(1, 3):
			f.Type = tString
			f.Tag = reflect.StructTag(fmt.Sprintf(`json:"p%d"`, i))
		case depth < 2 && s.Chance(1, 8):
			f.Type = g.sweepStruct(depth + 1)
			f.Tag = reflect.StructTag(fmt.Sprintf(`json:"s%d,omitempty"`, i))
		default:
			f.Type = emptyable[s.Draw(len(emptyable))]
			f.Tag = reflect.StructTag(fmt.Sprintf(`json:"e%d,omitempty"`, i))
		}
		fs = append(fs, f)
	}
	return reflect.StructOf(fs)
}

func (g *GoGen) structType(depth int) reflect.Type {
	s := g.S
	if g.Cfg.OmitSweep && s.Chance(2, 3) {
		return g.sweepStruct(depth)
	}
	n := s.Weighted(1, 3, 3, 3, 2, 1)
	if n == 5 {
		n = 5 + s.Draw(8)
	}
	if g.Cfg.BigStructs && s.Chance(1, 30) {
		n = 60 + s.Draw(75)
	}
	g.nstruct++
	var fs []reflect.StructField
	embedUsed := false
	for i := 0; i < n; i++ {
		var ft reflect.Type
		if n > 20 {
			ft = []reflect.Type{tInt, tString, tBool, tBytes}[s.Draw(4)]
		} else {
			ft = g.Type(depth + 1)
		}
		name := tagNames[s.Draw(len(tagNames))]
		opts := ""
		if s.Chance(1, 4) {
			opts += ",omitempty"
		}
		if s.Chance(1, 8) {
			opts += ",omitzero"
		}
		if s.Chance(1, 10) {
			opts += ",string"
		}
		if s.Chance(1, 12) {
			opts += ",case:ignore"
		}
		if !embedUsed && s.Chance(1, 10) {
			// an embedded fallback must be a map[string]T or a jsontext.Value and carry no name
			if s.Bool() {
				ft = tRaw
			} else {
				ft = reflect.MapOf(tString, g.Type(g.Cfg.MaxDepth))
			}
			name, opts = "", ",embed"
			embedUsed = true
		}
		if fm := formatsFor(ft); FormatTags && fm != nil && opts != ",embed" && s.Chance(1, 3) {
			opts += ",format:" + fm[s.Draw(len(fm))] // must come last
		}
		f := reflect.StructField{Name: "F" + strconv.Itoa(i), Type: ft}
		if name != "" || opts != "" {
			f.Tag = reflect.StructTag(fmt.Sprintf(`json:"%s%s"`, name, opts))
		}
		fs = append(fs, f)
	}
	return reflect.StructOf(fs)
}

var strValues = []string{"", "x", "hello", "a\"b", "\\", "tab\t", "é", "日本語", "😀", "\u2028", "<&>", "null", "{}", "[]", "\"\"", "\x00"}
var badStrValues = []string{"\xff", "a\xc0\x80", "\xe2\x82", "ok\x80", "\xed\xa0\x80"}

func (g *GoGen) str() string {
	s := g.S
	switch s.Weighted(6, 2, 1) {
	case 0:
		if g.Cfg.Adversarial && s.Chance(1, 6) {
			return badStrValues[s.Draw(len(badStrValues))]
		}
		return strValues[s.Draw(len(strValues))]
	case 1:
		n := Size(s, 6000)
		b := make([]byte, n)
		for i := range b {
			b[i] = byte('a' + i%26)
		}
		return string(b)
	default:
		n := Size(s, 300)
		var b []byte
		for i := 0; i < n; i++ {
			b = append(b, []string{"a", "\"", "\n", "é", "😀", "\x01", "<"}[s.Draw(7)]...)
		}
		return string(b)
	}
}

var rawValues = []string{"null", "0", "\"\"", "{}", "[]", "\"\\\"\"", "true", " [1, 2] ", "{\"a\":{\"b\":[]}}", "-1.5e3", "\"\\u00e9\""}
var badRawValues = []string{"{\"k\xff\":1,\"k\xfe\":2}", "{\"\xff\":1,\"\\ufffd\":2}", `{"a\"b":1,"a\u0022b":2}`, `{"x\ny":1,"x\u000ay":2}`, `{"k":1,"\u006b":2}`, "", " ", "nul", "{", "[1,]", "1 2", "{\"a\":1,\"a\":2}", "\"\xff\"", "\"\\ud800\"", "01", "{\"a\"}", "[}", "tru", "\"unterminated"}

// WideObject builds {"m0":0,...} with n members; if dup>=0 member number n-1
// repeats the name of member dup (a late duplicate); long>0 pads names.
func WideObject(n, dup, long int) string {
	b := []byte{'{'}
	for i := 0; i < n; i++ {
		if i > 0 {
			b = append(b, ',')
		}
		k := i
		if i == n-1 && dup >= 0 {
			k = dup
		}
		b = append(b, '"', 'm')
		b = strconv.AppendInt(b, int64(k), 10)
		for j := 0; j < long; j++ {
			b = append(b, byte('a'+j%26))
		}
		b = append(b, '"', ':')
		b = strconv.AppendInt(b, int64(i), 10)
	}
	return string(append(b, '}'))
}

// WideRaw draws a wide object, valid or with a duplicate among late members.
func WideRaw(s *core.Stream, mayDup bool) string {
	n := 60 + s.Draw(20)
	long := 0
	if s.Chance(1, 3) {
		n = 20 + s.Draw(45)
		long = 20 + s.Draw(60)
	}
	dup := -1
	if mayDup && s.Chance(1, 2) {
		dup = s.Draw(n - 1)
		if s.Chance(1, 2) {
			dup = n - 2 - s.Draw(3)
		}
	}
	return WideObject(n, dup, long)
}

func (g *GoGen) newPeer(t reflect.Type, key bool) reflect.Value {
	g.nextID++
	id := g.nextID
	g.Peers = append(g.Peers, PeerRef{ID: id, Type: t.Name(), Key: key})
	v := reflect.New(t).Elem()
	v.Field(0).SetInt(int64(id))
	return v
}

// Value fills a value of type t.
func (g *GoGen) Value(t reflect.Type, depth int) reflect.Value {
	s := g.S
	v := reflect.New(t).Elem()
	switch t {
	case tPTo, tPToPtr, tPJSON, tPJSONPtr, tPText, tPAppend, tPFunc:
		return g.newPeer(t, false)
	case tRaw:
		switch {
		case s.Chance(1, 8):
			// nil
		case g.Cfg.Adversarial && s.Chance(1, 4):
			v.SetBytes([]byte(badRawValues[s.Draw(len(badRawValues))]))
		case s.Chance(1, 10):
			v.SetBytes([]byte(WideRaw(s, g.Cfg.Adversarial)))
		case s.Chance(1, 4):
			v.SetBytes(Text(s, JSONCfg{MaxBytes: 64 + s.Draw(600), MaxDepth: 3, DupNames: g.Cfg.Adversarial && s.Chance(1, 3)}))
		default:
			v.SetBytes([]byte(rawValues[s.Draw(len(rawValues))]))
		}
		return v
	case tTime:
		switch s.Draw(7) {
		case 0: // zero
		case 5:
			// a zone abbreviation is caller-controlled text that layouts with MST copy into the output
			v.Set(reflect.ValueOf(time.Date(2000, 1, 2, 3, 4, 5, 0, time.FixedZone("A\"B\\", 3600))))
		case 6:
			v.Set(reflect.ValueOf(time.Date(2000, 1, 2, 3, 4, 5, 6, time.FixedZone([]string{"\x01Z", "\xffZ", "<é&>", "\u2028"}[s.Draw(4)], -7200))))
		case 1:
			v.Set(reflect.ValueOf(time.Unix(1700000000, 123456789).UTC()))
		case 2:
			v.Set(reflect.ValueOf(time.Date(1, 1, 1, 0, 0, 0, 1, time.FixedZone("x", 3600*5+60*30))))
		case 3:
			v.Set(reflect.ValueOf(time.Date(9999, 12, 31, 23, 59, 59, 999999999, time.UTC)))
		default:
			v.Set(reflect.ValueOf(time.Date(10000, 1, 1, 0, 0, 0, 0, time.FixedZone("", -3600*23)))) // not representable in RFC 3339
		}
		return v
	case tDur:
		v.SetInt([]int64{0, 1, -1, 1500000000, 3600e9 * 25, math.MaxInt64, math.MinInt64, 999999999}[s.Draw(8)])
		return v
	case tBytes:
		if !s.Chance(1, 6) {
			n := s.Weighted(3, 3, 1)
			if n == 2 {
				n = Size(s, 3000)
			}
			b := make([]byte, n)
			for i := range b {
				b[i] = byte(s.Draw(256))
			}
			v.SetBytes(b)
		}
		return v
	}
	switch t.Kind() {
	case reflect.Bool:
		v.SetBool(s.Bool())
	case reflect.Int, reflect.Int8, reflect.Int64:
		x := []int64{0, 1, -1, 7, 127, -128, math.MaxInt64, math.MinInt64, 1 << 53}[s.Draw(9)]
		if v.OverflowInt(x) {
			x = int64(int8(x))
		}
		v.SetInt(x)
	case reflect.Uint8, reflect.Uint64:
		x := []uint64{0, 1, 255, math.MaxUint64, 1 << 53}[s.Draw(5)]
		if v.OverflowUint(x) {
			x = uint64(uint8(x))
		}
		v.SetUint(x)
	case reflect.Float32, reflect.Float64:
		w := 9
		if g.Cfg.Adversarial {
			w = 12
		}
		f := []float64{0, 1, -1.5, 3.25, 1e21, 1e-7, math.Copysign(0, -1), 123456789, math.MaxFloat32, math.NaN(), math.Inf(1), math.Inf(-1)}[s.Draw(w)]
		if math.IsNaN(f) {
			g.HasNaN = true
		}
		v.SetFloat(f)
	case reflect.String:
		v.SetString(g.str())
	case reflect.Interface:
		switch s.Weighted(2, 2, 2, 2, 1, 2) {
		case 0:
			// nil
		case 1:
			v.Set(reflect.ValueOf(g.str()))
		case 2:
			v.Set(reflect.ValueOf([]float64{0, 1.5, -2, 1e6}[s.Draw(4)]))
		case 3:
			if depth < g.Cfg.MaxDepth+1 {
				m := map[string]any{}
				n := s.Draw(3)
				for i := 0; i < n; i++ {
					m["k"+strconv.Itoa(i)] = g.Value(tAny, depth+1).Interface()
				}
				if n >= 2 {
					g.MultiMap = true
				}
				v.Set(reflect.ValueOf(m))
			}
		case 4:
			if depth < g.Cfg.MaxDepth+1 {
				a := []any{}
				for i, n := 0, s.Draw(3); i < n; i++ {
					a = append(a, g.Value(tAny, depth+1).Interface())
				}
				v.Set(reflect.ValueOf(a))
			}
		case 5:
			if g.Cfg.Peers && depth < g.Cfg.MaxDepth+1 {
				pt := peerTypes[s.Draw(len(peerTypes))]
				pv := g.newPeer(pt, false)
				if s.Bool() {
					p := reflect.New(pt)
					p.Elem().Set(pv)
					v.Set(p)
				} else {
					v.Set(pv)
				}
			} else {
				v.Set(reflect.ValueOf(true))
			}
		}
	case reflect.Pointer:
		if !s.Chance(1, 4) {
			p := reflect.New(t.Elem())
			p.Elem().Set(g.Value(t.Elem(), depth+1))
			v.Set(p)
		}
	case reflect.Slice:
		switch n := s.Weighted(1, 2, 3, 2, 1); n {
		case 0: // nil
		case 1:
			v.Set(reflect.MakeSlice(t, 0, 0))
		default:
			sl := reflect.MakeSlice(t, n-1, n-1)
			for i := 0; i < n-1; i++ {
				sl.Index(i).Set(g.Value(t.Elem(), depth+1))
			}
			v.Set(sl)
		}
	case reflect.Array:
		for i := 0; i < t.Len(); i++ {
			v.Index(i).Set(g.Value(t.Elem(), depth+1))
		}
	case reflect.Map:
		switch n := s.Weighted(1, 2, 4, 2, 1); n {
		case 0:
		case 1:
			v.Set(reflect.MakeMap(t))
		default:
			m := reflect.MakeMap(t)
			for i := 0; i < n-1; i++ {
				m.SetMapIndex(g.keyValue(t.Key(), i), g.Value(t.Elem(), depth+1))
			}
			if m.Len() >= 2 {
				g.MultiMap = true
			}
			v.Set(m)
		}
	case reflect.Struct:
		for i := 0; i < t.NumField(); i++ {
			if g.Cfg.OmitSweep && t.Field(i).Type != tString && s.Chance(1, 2) {
				continue // zero value: nil slice/map/pointer/interface, "" - all "empty"
			}
			if s.Chance(1, 5) {
				continue // leave zero (exercises omitzero/omitempty)
			}
			v.Field(i).Set(g.Value(t.Field(i).Type, depth+1))
		}
	}
	return v
}

func (g *GoGen) keyValue(t reflect.Type, i int) reflect.Value {
	s := g.S
	v := reflect.New(t).Elem()
	switch t {
	case tPText, tPAppend:
		g.nextID++
		g.Peers = append(g.Peers, PeerRef{ID: g.nextID, Type: t.Name(), Key: true})
		v.Field(0).SetInt(int64(g.nextID))
		return v
	}
	switch t.Kind() {
	case reflect.String:
		if g.Cfg.Adversarial && s.Chance(1, 6) {
			v.SetString(badStrValues[s.Draw(len(badStrValues))])
		} else if s.Chance(1, 3) {
			v.SetString(strValues[s.Draw(len(strValues))])
		} else {
			v.SetString("k" + strconv.Itoa(i))
		}
	case reflect.Int:
		v.SetInt(int64(i*7 - 3))
	case reflect.Uint8:
		v.SetUint(uint64(i * 50))
	case reflect.Float64:
		f := []float64{0, 1.5, math.NaN(), math.Copysign(0, -1), math.Inf(1)}[s.Draw(5)]
		if math.IsNaN(f) {
			g.HasNaN = true
		}
		v.SetFloat(f)
	case reflect.Bool:
		v.SetBool(i%2 == 0)
	}
	return v
}
