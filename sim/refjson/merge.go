package refjson

import "errors"

// Node is a parsed JSON value that keeps number and string spellings exact.
type Node struct {
	Kind    byte // n t f " 0 { [
	Lit     string
	Names   []string // objects: unescaped member names, in order
	Members []*Node  // objects: values; arrays: elements
}

// ParseNode parses one valid JSON text.
func ParseNode(text []byte) (*Node, error) {
	r := Scan(text, Opts{})
	if r.Status != Complete || len(r.Values) != 1 {
		return nil, errors.New("refjson: not exactly one valid value")
	}
	i := 0
	return parseNode(text, r.Toks, &i), nil
}

func parseNode(text []byte, toks []Tok, i *int) *Node {
	t := toks[*i]
	*i++
	n := &Node{Kind: t.Kind, Lit: string(text[t.Start:t.End])}
	switch t.Kind {
	case '[':
		n.Lit = ""
		for toks[*i].Kind != ']' {
			n.Members = append(n.Members, parseNode(text, toks, i))
		}
		*i++
	case '{':
		n.Lit = ""
		for toks[*i].Kind != '}' {
			nt := toks[*i]
			*i++
			name, _ := Unquote(text[nt.Start:nt.End])
			n.Names = append(n.Names, name)
			n.Members = append(n.Members, parseNode(text, toks, i))
		}
		*i++
	}
	return n
}

// Merge implements the statement's merge: objects are united recursively,
// everything else takes the right-hand side.
func Merge(a, b *Node) *Node {
	if a == nil {
		return b
	}
	if a.Kind != '{' || b.Kind != '{' {
		return b
	}
	out := &Node{Kind: '{'}
	idx := map[string]int{}
	for i, n := range a.Names {
		idx[n] = len(out.Names)
		out.Names = append(out.Names, n)
		out.Members = append(out.Members, a.Members[i])
	}
	for i, n := range b.Names {
		if k, ok := idx[n]; ok {
			out.Members[k] = Merge(out.Members[k], b.Members[i])
		} else {
			idx[n] = len(out.Names)
			out.Names = append(out.Names, n)
			out.Members = append(out.Members, b.Members[i])
		}
	}
	return out
}

// AppendNode serializes a node compactly (strings and numbers keep their spelling).
func AppendNode(dst []byte, n *Node) []byte {
	switch n.Kind {
	case '[':
		dst = append(dst, '[')
		for i, m := range n.Members {
			if i > 0 {
				dst = append(dst, ',')
			}
			dst = AppendNode(dst, m)
		}
		return append(dst, ']')
	case '{':
		dst = append(dst, '{')
		for i, m := range n.Members {
			if i > 0 {
				dst = append(dst, ',')
			}
			dst = append(dst, Quote(n.Names[i], false, false)...)
			dst = append(dst, ':')
			dst = AppendNode(dst, m)
		}
		return append(dst, '}')
	}
	return append(dst, n.Lit...)
}
