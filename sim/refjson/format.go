package refjson

import (
	"strings"
	"unicode/utf8"
)

// FTok is a token for the reference serializer: strings carry their meaning
// (unescaped text), numbers their literal.
type FTok struct {
	Kind byte   // n f t " 0 { } [ ]
	Str  string // for '"'
	Lit  string // for '0'
}

type FOpts struct {
	SpaceAfterColon bool
	SpaceAfterComma bool
	Multiline       bool
	Indent          string
	Prefix          string
	EscapeHTML      bool
	EscapeJS        bool
}

// Quote produces the minimal JSON string literal (RFC 8785 3.2.2.2) for s,
// each ill-formed byte becoming U+FFFD, with the optional HTML/JS escapes.
func Quote(s string, html, js bool) string {
	const hex = "0123456789abcdef"
	var b strings.Builder
	b.WriteByte('"')
	for i := 0; i < len(s); {
		c := s[i]
		if c < utf8.RuneSelf {
			switch {
			case c == '"':
				b.WriteString(`\"`)
			case c == '\\':
				b.WriteString(`\\`)
			case c == '\b':
				b.WriteString(`\b`)
			case c == '\f':
				b.WriteString(`\f`)
			case c == '\n':
				b.WriteString(`\n`)
			case c == '\r':
				b.WriteString(`\r`)
			case c == '\t':
				b.WriteString(`\t`)
			case c < 0x20:
				b.WriteString(`\u00`)
				b.WriteByte(hex[c>>4])
				b.WriteByte(hex[c&15])
			case html && (c == '<' || c == '>' || c == '&'):
				b.WriteString(`\u00`)
				b.WriteByte(hex[c>>4])
				b.WriteByte(hex[c&15])
			default:
				b.WriteByte(c)
			}
			i++
			continue
		}
		r, n := utf8.DecodeRuneInString(s[i:])
		switch {
		case r == utf8.RuneError && n == 1:
			b.WriteString("�")
		case js && (r == 0x2028 || r == 0x2029):
			b.WriteString(`\u202`)
			b.WriteByte(hex[r&15])
		default:
			b.WriteString(s[i : i+n])
		}
		i += n
	}
	b.WriteByte('"')
	return b.String()
}

// Formatter serializes a token stream incrementally, the way the Encoder
// documentation describes: compact by default, optional space after ':' and
// ',', optional multi-line layout, one newline after each top-level value.
type Formatter struct {
	O     FOpts
	Out   []byte
	stack []fframe
}

type fframe struct {
	obj bool
	n   int
}

func NewFormatter(o FOpts) *Formatter { return &Formatter{O: o, stack: []fframe{{}}} }

func (f *Formatter) Depth() int { return len(f.stack) - 1 }

func (f *Formatter) indent(n int) {
	f.Out = append(f.Out, '\n')
	f.Out = append(f.Out, f.O.Prefix...)
	for i := 0; i < n; i++ {
		f.Out = append(f.Out, f.O.Indent...)
	}
}

// Len returns the length the output would have; same as len(f.Out).
func (f *Formatter) Len() int { return len(f.Out) }

// Write appends one token. topNewline says whether completed top-level
// values are followed by a newline.
func (f *Formatter) Write(t FTok, topNewline bool) {
	top := &f.stack[len(f.stack)-1]
	closing := t.Kind == '}' || t.Kind == ']'
	depth := f.Depth()
	if closing {
		if f.O.Multiline && top.n > 0 {
			f.indent(depth - 1)
		}
		f.Out = append(f.Out, t.Kind)
		f.stack = f.stack[:len(f.stack)-1]
		if f.Depth() == 0 && topNewline {
			f.Out = append(f.Out, '\n')
		}
		return
	}
	// separators and layout before the token
	if depth > 0 {
		if top.obj && top.n%2 == 1 {
			f.Out = append(f.Out, ':')
			if f.O.SpaceAfterColon {
				f.Out = append(f.Out, ' ')
			}
		} else {
			if top.n > 0 {
				f.Out = append(f.Out, ',')
				if f.O.SpaceAfterComma {
					f.Out = append(f.Out, ' ')
				}
			}
			if f.O.Multiline {
				f.indent(depth)
			}
		}
	}
	top.n++
	switch t.Kind {
	case 'n':
		f.Out = append(f.Out, "null"...)
	case 't':
		f.Out = append(f.Out, "true"...)
	case 'f':
		f.Out = append(f.Out, "false"...)
	case '"':
		f.Out = append(f.Out, Quote(t.Str, f.O.EscapeHTML, f.O.EscapeJS)...)
	case '0':
		f.Out = append(f.Out, t.Lit...)
	case '{':
		f.Out = append(f.Out, '{')
		f.stack = append(f.stack, fframe{obj: true})
		return
	case '[':
		f.Out = append(f.Out, '[')
		f.stack = append(f.stack, fframe{})
		return
	}
	if f.Depth() == 0 && topNewline {
		f.Out = append(f.Out, '\n')
	}
}

// WriteText appends every token of a valid JSON text (as WriteValue does:
// whitespace dropped, strings re-spelled minimally, numbers verbatim).
func (f *Formatter) WriteText(text []byte, toks []Tok, topNewline bool) {
	for _, t := range toks {
		ft := FTok{Kind: t.Kind}
		switch t.Kind {
		case '"':
			ft.Str, _ = Unquote(text[t.Start:t.End])
		case '0':
			ft.Lit = string(text[t.Start:t.End])
		}
		f.Write(ft, topNewline)
	}
}
