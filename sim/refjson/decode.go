package refjson

import (
	"errors"
	"math"
	"reflect"
	"strconv"
)

// DecodeAny decodes one valid JSON text into nil, bool, string, float64,
// []any, map[string]any by the RFC 8259 meaning. Numbers use
// strconv.ParseFloat, which rounds correctly. It reports an error for
// invalid text, duplicate names or a number that overflows float64.
func DecodeAny(text []byte) (any, error) {
	r := Scan(text, Opts{})
	if r.Status != Complete || len(r.Values) != 1 {
		return nil, errors.New("refjson: not exactly one valid value")
	}
	i := 0
	v, err := decodeTok(text, r.Toks, &i)
	if err != nil {
		return nil, err
	}
	return v, nil
}

func decodeTok(text []byte, toks []Tok, i *int) (any, error) {
	t := toks[*i]
	*i++
	switch t.Kind {
	case 'n':
		return nil, nil
	case 't':
		return true, nil
	case 'f':
		return false, nil
	case '"':
		s, _ := Unquote(text[t.Start:t.End])
		return s, nil
	case '0':
		f, err := strconv.ParseFloat(string(text[t.Start:t.End]), 64)
		if err != nil {
			return nil, err
		}
		return f, nil
	case '[':
		arr := []any{}
		for toks[*i].Kind != ']' {
			v, err := decodeTok(text, toks, i)
			if err != nil {
				return nil, err
			}
			arr = append(arr, v)
		}
		*i++
		return arr, nil
	case '{':
		obj := map[string]any{}
		for toks[*i].Kind != '}' {
			nt := toks[*i]
			*i++
			name, _ := Unquote(text[nt.Start:nt.End])
			v, err := decodeTok(text, toks, i)
			if err != nil {
				return nil, err
			}
			obj[name] = v
		}
		*i++
		return obj, nil
	}
	return nil, errors.New("refjson: unexpected token")
}

// EqualAny compares a value produced by the library with a reference tree.
// float64 are compared by bits; a nil map/slice/interface equals reference nil.
func EqualAny(got, want any) bool {
	if want == nil {
		if got == nil {
			return true
		}
		rv := reflect.ValueOf(got)
		switch rv.Kind() {
		case reflect.Map, reflect.Slice, reflect.Interface, reflect.Pointer:
			return rv.IsNil()
		}
		return false
	}
	switch w := want.(type) {
	case bool:
		g, ok := got.(bool)
		return ok && g == w
	case string:
		g, ok := got.(string)
		return ok && g == w
	case float64:
		g, ok := got.(float64)
		return ok && math.Float64bits(g) == math.Float64bits(w)
	case []any:
		g, ok := got.([]any)
		if !ok || g == nil || len(g) != len(w) {
			return false
		}
		for i := range w {
			if !EqualAny(g[i], w[i]) {
				return false
			}
		}
		return true
	case map[string]any:
		g, ok := got.(map[string]any)
		if !ok || g == nil || len(g) != len(w) {
			return false
		}
		for k, wv := range w {
			gv, ok := g[k]
			if !ok || !EqualAny(gv, wv) {
				return false
			}
		}
		return true
	}
	return false
}
