// Package refjson is an independent reference implementation of the JSON
// grammar (RFC 8259 / RFC 7493) used as an oracle. It shares no code with the
// library under test.
package refjson

import (
	"strconv"
	"strings"
	"unicode/utf8"
)

type Opts struct {
	AllowInvalidUTF8    bool
	AllowDuplicateNames bool
	MaxDepth            int // 0 means 10000; negative means no container may be opened
}

func (o Opts) maxDepth() int {
	if o.MaxDepth == 0 {
		return 10000
	}
	if o.MaxDepth < 0 {
		return 0 // no nesting allowed at all
	}
	return o.MaxDepth
}

// Tok is one lexical token with its byte span.
type Tok struct {
	Kind   byte // n f t " 0 { } [ ]
	Start  int
	End    int
	IsName bool
}

const (
	Complete  = iota // input is zero or more complete values; ends at a value boundary
	Truncated        // viable prefix that stops inside a value
	Invalid          // not a viable prefix
)

const (
	ErrNone = iota
	ErrSyntax
	ErrDupName
	ErrUTF8
	ErrDepth
)

// Result of scanning a whole input as a stream of top-level values.
type Result struct {
	Toks   []Tok
	Status int
	// For Invalid: E is the first offset such that data[:E+1] is not a viable
	// prefix; T the start of the token containing E; S is T moved back over
	// whitespace and at most one ','/':' separator.
	E, T, S int
	ErrKind int
	// Pointers at the error: innermost open container, and (if the error lies in
	// or at the start of a value or between a name and its value) that slot.
	ContainerPtr string
	SlotPtr      string
	HasSlot      bool
	// Ambiguous is set when the statement of the properties does not determine
	// the verdict (names equal only after U+FFFD substitution).
	Ambiguous bool
	// Values are the spans of completed top-level values.
	Values [][2]int
	// TruncStart is the start of the incomplete token for Truncated (or len(data)).
	TruncStart int
	// MaxDepthSeen is the deepest nesting reached.
	MaxDepthSeen int
}

type frame struct {
	obj      bool
	n        int64 // names+values for objects, elements for arrays
	names    map[string]struct{}
	lastName string
}

// Model is the push-down automaton of the JSON grammar with position
// observers as documented for Decoder/Encoder (StackDepth, StackIndex,
// StackPointer).
type Model struct {
	Opts   Opts
	frames []frame // frames[0] is the virtual top level
}

func NewModel(o Opts) *Model { return &Model{Opts: o, frames: []frame{{}}} }

func (m *Model) Depth() int { return len(m.frames) - 1 }

func (m *Model) top() *frame { return &m.frames[len(m.frames)-1] }

// Index mirrors StackIndex(i).
func (m *Model) Index(i int) (byte, int64) {
	f := m.frames[i]
	switch {
	case i == 0:
		return 0, f.n
	case f.obj:
		return '{', f.n
	default:
		return '[', f.n
	}
}

// NeedName reports whether the next token must be an object member name.
func (m *Model) NeedName() bool { f := m.top(); return f.obj && f.n%2 == 0 }

// NeedValueAfterName reports whether a name was given and its value is pending.
func (m *Model) NeedValueAfterName() bool { f := m.top(); return f.obj && f.n%2 == 1 }

func escapePtr(b *strings.Builder, name string) {
	for _, r := range name { // ill-formed bytes become U+FFFD, as RFC 6901 needs text
		switch r {
		case '~':
			b.WriteString("~0")
		case '/':
			b.WriteString("~1")
		default:
			b.WriteRune(r)
		}
	}
}

func (m *Model) ptrUpTo(levels int, lastDelta int64, stopEmptyLast bool) string {
	var b strings.Builder
	for i := 1; i <= levels; i++ {
		f := &m.frames[i]
		if i == levels && stopEmptyLast && f.n == 0 {
			break
		}
		b.WriteByte('/')
		if f.obj {
			escapePtr(&b, f.lastName)
		} else {
			d := int64(-1)
			if i == levels {
				d = lastDelta
			}
			b.WriteString(strconv.FormatInt(f.n+d, 10))
		}
	}
	return b.String()
}

// Pointer mirrors StackPointer: the most recently processed value.
func (m *Model) Pointer() string {
	return m.ptrUpTo(m.Depth(), -1, true)
}

// ContainerPointer is the pointer of the innermost open container.
func (m *Model) ContainerPointer() string {
	if m.Depth() == 0 {
		return ""
	}
	return m.ptrUpTo(m.Depth()-1, -1, false)
}

// NextSlotPointer is the pointer the next value would get (array: next index;
// object after a name: that member). ok=false when a name is expected.
func (m *Model) NextSlotPointer() (string, bool) {
	if m.Depth() == 0 {
		return "", true
	}
	f := m.top()
	if f.obj {
		if f.n%2 == 0 {
			return "", false
		}
		return m.ptrUpTo(m.Depth(), -1, false), true
	}
	return m.ptrUpTo(m.Depth(), 0, false), true
}

// Rejection reasons.
const (
	OK = iota
	RejNeedName
	RejDupName
	RejMismatch
	RejMissingValue
	RejDepth
	RejTopLevelEnd
)

// CanApply reports whether a token of this kind (name = unescaped text for
// strings) is grammatical in the current state.
func (m *Model) CanApply(kind byte, name string) int {
	f := m.top()
	switch kind {
	case '}':
		if m.Depth() == 0 || !f.obj {
			return RejMismatch
		}
		if f.n%2 == 1 {
			return RejMissingValue
		}
		return OK
	case ']':
		if m.Depth() == 0 || f.obj {
			return RejMismatch
		}
		return OK
	}
	if f.obj && f.n%2 == 0 {
		if kind != '"' {
			return RejNeedName
		}
		if !m.Opts.AllowDuplicateNames {
			if _, dup := f.names[name]; dup {
				return RejDupName
			}
		}
		return OK
	}
	if (kind == '{' || kind == '[') && m.Depth() >= m.Opts.maxDepth() {
		return RejDepth
	}
	return OK
}

// Apply advances the model by one token; the caller has checked CanApply.
func (m *Model) Apply(kind byte, name string) {
	f := m.top()
	switch kind {
	case '}', ']':
		m.frames = m.frames[:len(m.frames)-1]
		return
	}
	if f.obj && f.n%2 == 0 {
		if !m.Opts.AllowDuplicateNames {
			if f.names == nil {
				f.names = map[string]struct{}{}
			}
			f.names[name] = struct{}{}
		}
		f.lastName = name
		f.n++
		return
	}
	f.n++
	switch kind {
	case '{':
		m.frames = append(m.frames, frame{obj: true})
	case '[':
		m.frames = append(m.frames, frame{})
	}
}

// ApplyWholeValue advances by one complete value (or name, if one is expected).
func (m *Model) ApplyWholeValue(kind byte, name string) {
	f := m.top()
	if f.obj && f.n%2 == 0 {
		m.Apply('"', name)
		return
	}
	f.n++
}

// UnapplyMember retracts the last name/value pair of the innermost object
// (the encoder does this for omitempty); prevName is the name before it.
func (m *Model) Clone() *Model {
	c := &Model{Opts: m.Opts, frames: make([]frame, len(m.frames))}
	for i, f := range m.frames {
		c.frames[i] = f
		if f.names != nil {
			c.frames[i].names = make(map[string]struct{}, len(f.names))
			for k := range f.names {
				c.frames[i].names[k] = struct{}{}
			}
		}
	}
	return c
}

// ---------------------------------------------------------------------------

func isWS(c byte) bool { return c == ' ' || c == '\t' || c == '\n' || c == '\r' }

func skipWS(data []byte, pos int) int {
	for pos < len(data) && isWS(data[pos]) {
		pos++
	}
	return pos
}

func isHex(c byte) bool {
	return '0' <= c && c <= '9' || 'a' <= c && c <= 'f' || 'A' <= c && c <= 'F'
}

func hexVal(c byte) int {
	switch {
	case '0' <= c && c <= '9':
		return int(c - '0')
	case 'a' <= c && c <= 'f':
		return int(c-'a') + 10
	default:
		return int(c-'A') + 10
	}
}

// scan status of one lexeme
const (
	lexOK = iota
	lexTrunc
	lexBad
)

// ScanString scans a string literal starting at data[pos]=='"'. On lexBad, end
// is the offset E of the first byte that makes the prefix non-viable.
func ScanString(data []byte, pos int, allowInvalidUTF8 bool) (end int, st int, utf8err bool) {
	i := pos + 1
	for {
		if i >= len(data) {
			return i, lexTrunc, false
		}
		c := data[i]
		switch {
		case c == '"':
			return i + 1, lexOK, false
		case c < 0x20:
			return i, lexBad, false
		case c == '\\':
			if i+1 >= len(data) {
				return len(data), lexTrunc, false
			}
			switch e := data[i+1]; e {
			case '"', '\\', '/', 'b', 'f', 'n', 'r', 't':
				i += 2
			case 'u':
				// four hex digits
				v := 0
				for k := 0; k < 4; k++ {
					if i+2+k >= len(data) {
						return len(data), lexTrunc, false
					}
					h := data[i+2+k]
					if !isHex(h) {
						return i + 2 + k, lexBad, false
					}
					v = v<<4 | hexVal(h)
					if !allowInvalidUTF8 && k == 1 && v >= 0xdc && v <= 0xdf {
						// \uDC.. : a low surrogate with no preceding high one
						return i + 2 + k, lexBad, true
					}
				}
				j := i + 6
				if v >= 0xd800 && v <= 0xdbff && !allowInvalidUTF8 {
					// must be followed by \uDC00..\uDFFF
					want := []func(byte) bool{
						func(b byte) bool { return b == '\\' },
						func(b byte) bool { return b == 'u' },
						func(b byte) bool { return b == 'd' || b == 'D' },
						func(b byte) bool { return b >= 'c' && b <= 'f' || b >= 'C' && b <= 'F' },
						isHex, isHex,
					}
					for k, ok := range want {
						if j+k >= len(data) {
							return len(data), lexTrunc, false
						}
						if !ok(data[j+k]) {
							return j + k, lexBad, true
						}
					}
					j += 6
				}
				i = j
			default:
				return i + 1, lexBad, false
			}
		case c < 0x80:
			i++
		default:
			if allowInvalidUTF8 {
				i++
				continue
			}
			n, st := utf8Seq(data, i)
			switch st {
			case lexTrunc:
				return len(data), lexTrunc, false
			case lexBad:
				return n, lexBad, true
			}
			i = n
		}
	}
}

// utf8Seq validates one multi-byte sequence at data[i] (data[i]>=0x80).
// On lexBad the returned offset is the first offending byte.
func utf8Seq(data []byte, i int) (int, int) {
	c := data[i]
	var need int
	lo, hi := byte(0x80), byte(0xbf)
	switch {
	case c >= 0xc2 && c <= 0xdf:
		need = 1
	case c == 0xe0:
		need, lo = 2, 0xa0
	case c >= 0xe1 && c <= 0xec, c == 0xee, c == 0xef:
		need = 2
	case c == 0xed:
		need, hi = 2, 0x9f
	case c == 0xf0:
		need, lo = 3, 0x90
	case c >= 0xf1 && c <= 0xf3:
		need = 3
	case c == 0xf4:
		need, hi = 3, 0x8f
	default:
		return i, lexBad
	}
	for k := 1; k <= need; k++ {
		if i+k >= len(data) {
			return len(data), lexTrunc
		}
		b := data[i+k]
		if b < lo || b > hi {
			return i + k, lexBad
		}
		lo, hi = 0x80, 0xbf
	}
	return i + 1 + need, lexOK
}

// ScanNumber scans a number greedily from data[pos] ('-' or digit).
// atEOF reports that the number ran to the end of data (so a stream reader
// cannot yet know it is complete unless the stream has ended).
func ScanNumber(data []byte, pos int) (end int, st int) {
	i := pos
	if i < len(data) && data[i] == '-' {
		i++
	}
	if i >= len(data) {
		return i, lexTrunc
	}
	switch {
	case data[i] == '0':
		i++
	case data[i] >= '1' && data[i] <= '9':
		for i < len(data) && data[i] >= '0' && data[i] <= '9' {
			i++
		}
	default:
		return i, lexBad
	}
	if i < len(data) && data[i] == '.' {
		i++
		if i >= len(data) {
			return i, lexTrunc
		}
		if data[i] < '0' || data[i] > '9' {
			return i, lexBad
		}
		for i < len(data) && data[i] >= '0' && data[i] <= '9' {
			i++
		}
	}
	if i < len(data) && (data[i] == 'e' || data[i] == 'E') {
		i++
		if i < len(data) && (data[i] == '+' || data[i] == '-') {
			i++
		}
		if i >= len(data) {
			return i, lexTrunc
		}
		if data[i] < '0' || data[i] > '9' {
			return i, lexBad
		}
		for i < len(data) && data[i] >= '0' && data[i] <= '9' {
			i++
		}
	}
	return i, lexOK
}

func scanLiteral(data []byte, pos int, lit string) (int, int) {
	for k := 0; k < len(lit); k++ {
		if pos+k >= len(data) {
			return len(data), lexTrunc
		}
		if data[pos+k] != lit[k] {
			return pos + k, lexBad
		}
	}
	return pos + len(lit), lexOK
}

// Unquote returns the RFC 8259 meaning of a complete, lexically valid string
// literal; each ill-formed byte and each unpaired surrogate escape becomes
// U+FFFD. mangled reports whether any such substitution happened.
func Unquote(lit []byte) (s string, mangled bool) {
	var b []byte
	i := 1
	end := len(lit) - 1
	for i < end {
		c := lit[i]
		switch {
		case c == '\\':
			switch e := lit[i+1]; e {
			case '"', '\\', '/':
				b = append(b, e)
				i += 2
			case 'b':
				b = append(b, '\b')
				i += 2
			case 'f':
				b = append(b, '\f')
				i += 2
			case 'n':
				b = append(b, '\n')
				i += 2
			case 'r':
				b = append(b, '\r')
				i += 2
			case 't':
				b = append(b, '\t')
				i += 2
			case 'u':
				v := rune(hexVal(lit[i+2])<<12 | hexVal(lit[i+3])<<8 | hexVal(lit[i+4])<<4 | hexVal(lit[i+5]))
				i += 6
				if v >= 0xd800 && v <= 0xdbff {
					if i+6 <= end && lit[i] == '\\' && lit[i+1] == 'u' && isHex(lit[i+2]) && isHex(lit[i+3]) && isHex(lit[i+4]) && isHex(lit[i+5]) {
						w := rune(hexVal(lit[i+2])<<12 | hexVal(lit[i+3])<<8 | hexVal(lit[i+4])<<4 | hexVal(lit[i+5]))
						if w >= 0xdc00 && w <= 0xdfff {
							v = 0x10000 + (v-0xd800)<<10 + (w - 0xdc00)
							i += 6
							b = utf8.AppendRune(b, v)
							continue
						}
					}
					mangled = true
					b = append(b, "�"...)
					continue
				}
				if v >= 0xdc00 && v <= 0xdfff {
					mangled = true
					b = append(b, "�"...)
					continue
				}
				b = utf8.AppendRune(b, v)
			}
		case c < 0x80:
			b = append(b, c)
			i++
		default:
			r, n := utf8.DecodeRune(lit[i:end])
			if r == utf8.RuneError && n == 1 {
				mangled = true
				b = append(b, "�"...)
				i++
				continue
			}
			b = append(b, lit[i:i+n]...)
			i += n
		}
	}
	return string(b), mangled
}

// Scan tokenises data as a stream of top-level values.
func Scan(data []byte, o Opts) *Result {
	r := &Result{}
	m := NewModel(o)
	mangledNames := []map[string]bool{nil} // per frame: names that involved U+FFFD substitution
	pos := 0
	sepStart := -1 // start of a pending separator (for S)
	fail := func(E, T, kind int) *Result {
		r.Status, r.E, r.T, r.ErrKind = Invalid, E, T, kind
		r.S = T
		if sepStart >= 0 {
			r.S = sepStart
		} else {
			// move back over whitespace only
			s := T
			for s > 0 && isWS(data[s-1]) {
				s--
			}
			r.S = s
		}
		r.ContainerPtr = m.ContainerPointer()
		r.SlotPtr, r.HasSlot = m.NextSlotPointer()
		return r
	}
	for {
		wsStart := pos
		pos = skipWS(data, pos)
		if pos >= len(data) {
			if m.Depth() == 0 && sepStart < 0 {
				r.Status = Complete
			} else {
				r.Status = Truncated
			}
			r.TruncStart = len(data)
			_ = wsStart
			return r
		}
		c := data[pos]
		f := m.top()
		// separators
		if sepStart < 0 && m.Depth() > 0 {
			switch {
			case f.obj && f.n%2 == 1:
				if c != ':' {
					return fail(pos, pos, ErrSyntax)
				}
				sepStart = skipBackWS(data, pos)
				pos++
				continue
			case f.n > 0 && c != '}' && c != ']':
				if c != ',' {
					return fail(pos, pos, ErrSyntax)
				}
				sepStart = skipBackWS(data, pos)
				pos++
				continue
			}
		}
		afterComma := sepStart >= 0 && !(f.obj && f.n%2 == 1)
		var kind byte
		start := pos
		var end, st int
		isUTF8 := false
		switch {
		case c == '{' || c == '[':
			kind, end, st = c, pos+1, lexOK
		case c == '}' || c == ']':
			if afterComma {
				return fail(pos, pos, ErrSyntax)
			}
			kind, end, st = c, pos+1, lexOK
		case c == '"':
			kind = '"'
			end, st, isUTF8 = ScanString(data, pos, o.AllowInvalidUTF8)
		case c == '-' || c >= '0' && c <= '9':
			kind = '0'
			end, st = ScanNumber(data, pos)
		case c == 'n':
			kind = 'n'
			end, st = scanLiteral(data, pos, "null")
		case c == 't':
			kind = 't'
			end, st = scanLiteral(data, pos, "true")
		case c == 'f':
			kind = 'f'
			end, st = scanLiteral(data, pos, "false")
		default:
			return fail(pos, pos, ErrSyntax)
		}
		// Grammar position check first: a non-string where a name is required is
		// non-viable at its first byte, whatever follows.
		needName := m.NeedName()
		if needName && kind != '"' && kind != '}' {
			return fail(pos, pos, ErrSyntax)
		}
		if kind == '}' || kind == ']' {
			if rej := m.CanApply(kind, ""); rej != OK {
				return fail(pos, pos, ErrSyntax)
			}
		}
		switch st {
		case lexTrunc:
			r.Status = Truncated
			r.TruncStart = start
			return r
		case lexBad:
			k := ErrSyntax
			if isUTF8 {
				k = ErrUTF8
			}
			return fail(end, start, k)
		}
		name := ""
		if needName && kind == '"' {
			var mangled bool
			name, mangled = Unquote(data[start:end])
			if !o.AllowDuplicateNames {
				mm := mangledNames[len(mangledNames)-1]
				if _, dup := m.top().names[name]; dup {
					if mangled || mm[name] {
						r.Ambiguous = true
					}
					sepStart = -1
					rr := fail(end-1, start, ErrDupName)
					var b strings.Builder
					b.WriteString(rr.ContainerPtr)
					b.WriteByte('/')
					escapePtr(&b, name)
					rr.SlotPtr, rr.HasSlot = b.String(), true
					rr.S = start
					return rr
				}
				if mangled {
					if mm == nil {
						mm = map[string]bool{}
						mangledNames[len(mangledNames)-1] = mm
					}
					mm[name] = true
				}
			}
		}
		if rej := m.CanApply(kind, name); rej != OK {
			k := ErrSyntax
			if rej == RejDepth {
				k = ErrDepth
			}
			return fail(pos, pos, k)
		}
		m.Apply(kind, name)
		switch kind {
		case '{', '[':
			mangledNames = append(mangledNames, nil)
			if m.Depth() > r.MaxDepthSeen {
				r.MaxDepthSeen = m.Depth()
			}
		case '}', ']':
			mangledNames = mangledNames[:len(mangledNames)-1]
		}
		r.Toks = append(r.Toks, Tok{Kind: kind, Start: start, End: end, IsName: needName && kind == '"'})
		sepStart = -1
		pos = end
		if m.Depth() == 0 {
			// a top-level value just completed; find its start
			vs := start
			if kind == '}' || kind == ']' {
				d := 0
				for i := len(r.Toks) - 1; i >= 0; i-- {
					switch r.Toks[i].Kind {
					case '}', ']':
						d++
					case '{', '[':
						d--
					}
					if d == 0 {
						vs = r.Toks[i].Start
						break
					}
				}
			}
			r.Values = append(r.Values, [2]int{vs, end})
		}
	}
}

func skipBackWS(data []byte, pos int) int {
	for pos > 0 && isWS(data[pos-1]) {
		pos--
	}
	return pos
}
