#!/bin/bash
# mutant_matrix.sh [ids...]: run every seeded change against the quick check of its own
# property on a scratch copy of /repo (never /repo itself); append results to seeded/RESULTS.tsv.
set -u
cd /verif
ids="$@"; [ -z "$ids" ] && ids=$(ls seeded | grep -E '^C[0-9]+-' )
for id in $ids; do
  prop=$(echo $id | sed 's/-.*//')
  wt=/tmp/mm-$id
  git -C /repo worktree remove --force $wt 2>/dev/null
  git -C /repo worktree add -q --detach $wt HEAD || continue
  if ! git -C $wt apply /verif/seeded/$id/patch.diff 2>/dev/null; then
    echo -e "$id\t$prop\tPATCH-DOES-NOT-APPLY\t-" >> seeded/RESULTS.tsv
    git -C /repo worktree remove --force $wt; continue
  fi
  t0=$(date +%s)
  out=$(VERIF_REPO=$wt VERIF_NO_EVIDENCE=1 ./check $prop quick 2>&1); code=$?
  t1=$(date +%s)
  classes=$(echo "$out" | grep -E '^violation: class=' | sed 's/violation: class=\([^ ]*\).*/\1/' | sort -u | head -4 | tr '\n' ' ')
  echo -e "$id\t$prop\texit=$code\t$((t1-t0))s\t$classes" >> seeded/RESULTS.tsv
  git -C /repo worktree remove --force $wt
  tag=$(echo "$wt" | tr -c 'A-Za-z0-9' _)
  rm -f /verif/bin/verifsim-$tag /verif/bin/verifsim-$tag-race /verif/bin/$tag.mod /verif/bin/$tag.sum
  rm -f /verif/replays/$prop-1-*.json
done
