#!/bin/bash
# run_mutant.sh <id> <prop> [tier] [extra check args]: apply seeded/<id>/patch.diff to /repo, run the check, undo.
set -u
id="$1"; prop="$2"; tier="${3:-quick}"; shift; shift; shift 2>/dev/null
cd /repo || exit 2
if [ -n "$(git status --porcelain)" ]; then echo "repo dirty, refusing"; exit 2; fi
git apply /verif/seeded/$id/patch.diff || { echo "patch does not apply"; exit 2; }
out=$(cd /verif && VERIF_NO_EVIDENCE=1 ./check $prop $tier "$@" 2>&1); code=$?
git -C /repo checkout -- . 
echo "$out" | grep -E "^violation|^VIOLATION|^$prop|TROUBLE" | cut -c1-300 | head -12
echo "MUTANT $id prop=$prop tier=$tier exit=$code"
