#!/bin/bash
# confirm_mutant.sh <srcdir containing patch.diff demo_test.go meta.json> <id>
# Confirms in a scratch worktree of /repo HEAD that the change compiles, passes the
# existing test suite, and that the demo fails with it and passes without it; then
# stores it under /verif/seeded/<id>/.
set -u
src="$1"; id="$2"
export GOFLAGS=-mod=mod GOPROXY=off GOSUMDB=off GOTOOLCHAIN=local
GO=go1.26.8
wt=/tmp/confirm-$id
git -C /repo worktree remove --force $wt 2>/dev/null
git -C /repo worktree add -q --detach $wt HEAD || exit 2
cleanup() { git -C /repo worktree remove --force $wt 2>/dev/null; }
trap cleanup EXIT
cd $wt
if ! git apply --check "$src/patch.diff" 2>/dev/null; then echo "RESULT $id: patch does not apply to current HEAD"; exit 3; fi
git apply "$src/patch.diff"
if ! $GO build ./... ; then echo "RESULT $id: does not compile"; exit 3; fi
if ! $GO test -count=1 ./... > /tmp/confirm-$id.log 2>&1; then echo "RESULT $id: test suite FAILS with change"; tail -5 /tmp/confirm-$id.log; exit 3; fi
place=$(head -1 "$src/demo_test.go" | sed -n 's,^// place in: *,,p'); place=${place:-.}
cp "$src/demo_test.go" "$place/zz_demo_test.go"
tname=$(grep -o 'func Test[A-Za-z0-9_]*' "$place/zz_demo_test.go" | head -1 | sed 's/func //')
if $GO test -count=1 -run "^${tname}\$" "./$place" > /tmp/confirm-$id.demo1 2>&1; then echo "RESULT $id: demo PASSES with change (should fail)"; exit 3; fi
git apply -R "$src/patch.diff"
if ! $GO test -count=1 -run "^${tname}\$" "./$place" > /tmp/confirm-$id.demo2 2>&1; then echo "RESULT $id: demo FAILS without change (should pass)"; tail -5 /tmp/confirm-$id.demo2; exit 3; fi
mkdir -p /verif/seeded/$id
cp "$src/patch.diff" "$src/demo_test.go" /verif/seeded/$id/
python3 - "$src/meta.json" /verif/seeded/$id/meta.json "$place" "$tname" <<'PY'
import json,sys
m=json.load(open(sys.argv[1]))
m['confirmed']={'base':'current /repo HEAD at confirmation time','ran':['git apply patch.diff; go1.26.8 build ./...; go1.26.8 test -count=1 ./... (all pass)','demo placed in %s: go1.26.8 test -run ^%s$ fails with the change, passes without'%(sys.argv[3],sys.argv[4])]}
json.dump(m,open(sys.argv[2],'w'),indent=1)
PY
rm -f /tmp/confirm-$id.log /tmp/confirm-$id.demo1 /tmp/confirm-$id.demo2
echo "RESULT $id: CONFIRMED"
