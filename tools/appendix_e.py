#!/usr/bin/env python3
# Regenerates "Appendix E" of DESIGN.md from seeded/*/meta.json and seeded/RESULTS.tsv.
import json, os, re
root='/verif/seeded'
res={}
for l in open(root+'/RESULTS.tsv'):
    f=l.rstrip('\n').split('\t')
    if len(f)>=3: res[f[0]]=f
rows=[]
for d in sorted(os.listdir(root)):
    mp=os.path.join(root,d,'meta.json')
    if not os.path.isfile(mp): continue
    m=json.load(open(mp))
    r=res.get(d)
    if m.get('status','').startswith('neutralised'): verdict='neutralised by a fix (not counted)'
    elif m.get('status','').startswith('superseded'): verdict='superseded (patch no longer applies)'
    elif m.get('status','').startswith('outside-statement') and (r is None or r[2]=='exit=0'): verdict='not caught: outside the statement (see meta.json status_note)'
    elif r is None: verdict='not yet run'
    elif r[2]=='exit=1': verdict='caught: '+(r[4].strip() if len(r)>4 else '')
    elif r[2]=='exit=0': verdict='**missed by its own quick check**'
    else: verdict=r[2]
    s=m.get('summary','').replace('|','/').replace('\n',' ')
    if len(s)>150: s=s[:147]+'...'
    files=','.join(os.path.basename(x) for x in m.get('files',[]))[:40]
    rows.append(f"| {d} | {m.get('property','?')} | {files} | {s} | {verdict} |")
out=['## Appendix E. Seeded changes (independent sub-agents) and which check catches them','',
'Every change below was produced by a fresh sub-agent that saw only the text of one property and a scratch',
'worktree, compiles, passes the repository\'s whole test suite, and comes with a demonstration that fails with the',
'change and passes without it; all of that was re-confirmed by `tools/confirm_mutant.sh` on the then-current HEAD',
'before the change was stored under `/verif/seeded/<id>/`. "caught" = `./check <own property> quick` exits 1 with',
'the listed violation classes when the change is applied to a scratch copy of the repository',
'(`tools/mutant_matrix.sh`, results in `seeded/RESULTS.tsv`). Several changes are also caught by other properties\' checks.','',
'| id | property | file | change | quick check of its own property |','|---|---|---|---|---|']+rows
text='\n'.join(out)+'\n'
p='/verif/DESIGN.md'
s=open(p).read()
i=s.find('## Appendix E.')
if i>=0: s=s[:i]
s=s.rstrip('\n')+'\n\n'+text
open(p,'w').write(s)
print(len(rows),'rows')
