#!/opt/veriftools/pyvenv/bin/python
import json,jsonschema,sys,glob
m=json.load(open('/verif/MANIFEST.json')); s=json.load(open('/root/.vp/MANIFEST.schema.json')); jsonschema.validate(m,s); print('manifest ok')
es=json.load(open('/root/.vp/EVIDENCE.schema.json'))
for f in sorted(glob.glob('/verif/evidence/*.json')):
    e=json.load(open(f)); jsonschema.validate(e,es); print(f,'ok',e['tier'],e['coverage'].get('evaluations'),e['coverage'].get('distinct_nontrivial'),'wall',round(e['wall_s'],1))
props=[json.loads(l)['id'] for l in open('/verif/properties.jsonl')]
claimed={c['property_id'] for c in m['checks']}; na={c['property_id'] for c in m.get('not_applicable',[])}
assert claimed|na==set(props) and not (claimed&na), (claimed, na)
print('claimed',sorted(claimed))
